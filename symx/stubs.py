"""symx.stubs -- contract-level stand-ins for the compiled libraries underneath acryo.

ImgStub / DaStub   : a (possibly dask) image known only by its symbolic shape; slicing and
                     padding are tracked per axis as index offsets (shape-only mode).
NdiStub            : scipy.ndimage -- affine_transform / map_coordinates return records of
                     *what would be sampled where*; sum_labels is a plain grouping sum.
SymBackend         : builds an instance of the real acryo Backend class (loaded from source)
                     whose _xp_/_ndi_/_fft_ are the shims.
"""
from __future__ import annotations

import numpy as np
import z3

from . import arrays as A
from .core import Sym, SymBool, Unsupported, cur, is_symbolic, lift, _coerce, _real


def zint(x):
    return lift(_coerce(x))


class MeanToken:
    """mean of an image region (finite iff the region is non-empty)"""

    _symx_passthrough = True

    def __init__(self, img):
        self.img = img

    def __float__(self):
        return self  # never reached: `float` is rebound in loaded code

    def __repr__(self):
        return f"MeanToken({self.img!r})"


class _DaMeta(type):
    def __instancecheck__(cls, obj):
        # an image stub flagged numpy_like stands for an in-memory ndarray: not a dask array
        return type.__instancecheck__(cls, obj) and not getattr(obj, "numpy_like", False)


class _DaArrayBase(metaclass=_DaMeta):
    """isinstance target standing for dask.array.Array"""

    numpy_like = False


class ImgStub(_DaArrayBase):
    """Image known by shape only.  Local index i on axis a is root index i + origin[a];
    local indices in [valid_lo[a], valid_hi[a]) hold root data, the rest is padding."""

    _symx_passthrough = True
    dtype = np.dtype(np.float32)

    def __init__(self, shape, root="tomogram", origin=None, valid=None, fill=None, root_shape=None, chunks=None):
        self.shape = tuple(shape)
        # dask-style chunk layout (concrete); one chunk per axis unless given
        self.chunks = tuple(tuple(c) for c in chunks) if chunks is not None else tuple((s,) for s in self.shape)
        self.numblocks = tuple(len(c) for c in self.chunks)
        self.npartitions = int(np.prod(self.numblocks))
        self.root = root
        self.origin = tuple(origin) if origin is not None else tuple(0 for _ in shape)
        self.valid = tuple(valid) if valid is not None else tuple((0, s) for s in shape)
        self.fill = fill
        self.root_shape = tuple(root_shape) if root_shape is not None else tuple(shape)

    @property
    def ndim(self):
        return len(self.shape)

    def __repr__(self):
        return f"ImgStub(shape={self.shape}, origin={self.origin})"

    def mean(self, *a, **k):
        return MeanToken(self)

    def compute(self, **kw):
        return self

    def __getitem__(self, key):
        if not isinstance(key, tuple):
            key = (key,)
        key = key + (slice(None),) * (self.ndim - len(key))
        ex = cur()
        shape, origin, valid = [], [], []
        for ax, (sl, size) in enumerate(zip(key, self.shape)):
            if not isinstance(sl, slice) or sl.step not in (None, 1):
                raise Unsupported("ImgStub supports plain slices only")
            start = 0 if sl.start is None else sl.start
            stop = size if sl.stop is None else sl.stop
            zs, ze, zn = zint(start), zint(stop), zint(size)
            ex.oblige("slice-in-range", z3.And(zs >= 0, zs <= zn, ze >= 0, ze <= zn))
            length = Sym(z3.If(ze >= zs, ze - zs, z3.IntVal(0)))
            shape.append(_simpl(length))
            origin.append(_simpl(Sym(zint(self.origin[ax]) + zs)))
            lo, hi = self.valid[ax]
            nlo, nhi = zint(lo) - zs, zint(hi) - zs
            nlo = z3.If(nlo > 0, nlo, z3.IntVal(0))
            nhi = z3.If(nhi < length.e, nhi, length.e)
            valid.append((_simpl(Sym(nlo)), _simpl(Sym(nhi))))
        out = ImgStub(shape, self.root, origin, valid, self.fill, self.root_shape)
        out.numpy_like = self.numpy_like
        out.dtype = self.dtype
        return out

    def astype(self, dtype, **kw):
        """same image, other element type (tracked, so that checks can tell in which arithmetic an image is interpolated)"""
        out = ImgStub(self.shape, self.root, self.origin, self.valid, self.fill, self.root_shape, chunks=self.chunks if all(isinstance(c, tuple) and all(isinstance(v, (int, np.integer)) for v in c) for c in self.chunks) else None)
        out.numpy_like = self.numpy_like
        out.dtype = np.dtype(dtype)
        return out

    @property
    def blocks(self):
        """dask's block view: blocks[i0:i1, j0:j1, k0:k1] is the sub-array made of those chunks (concrete chunk layout)"""
        outer = self

        class _Blocks:
            def __getitem__(self_, key):
                if not isinstance(key, tuple):
                    key = (key,)
                key = key + (slice(None),) * (outer.ndim - len(key))
                vox, chunks = [], []
                for sl, ch in zip(key, outer.chunks):
                    if isinstance(sl, int):
                        sl = slice(sl, sl + 1)
                    i0, i1, _ = sl.indices(len(ch))
                    edges = np.concatenate([[0], np.cumsum(ch)])
                    vox.append(slice(int(edges[i0]), int(edges[max(i1, i0)])))
                    chunks.append(tuple(ch[i0:max(i1, i0)]))
                sub = outer[tuple(vox)]
                sub.chunks = tuple(chunks)
                sub.numblocks = tuple(len(c) for c in chunks)
                sub.npartitions = int(np.prod(sub.numblocks)) if all(sub.numblocks) else 0
                return sub

        return _Blocks()

    # -- the reshape/sum pattern of acryo._utils.bin_image ------------------------------------
    def reshape(self, *shape):
        if len(shape) == 1 and isinstance(shape[0], (tuple, list)):
            shape = tuple(shape[0])
        return _Reshaped(self, shape)

    def padded(self, pads, mode):
        shape, origin, valid = [], [], []
        for ax, (p0, p1) in enumerate(pads):
            shape.append(_simpl(Sym(zint(self.shape[ax]) + zint(p0) + zint(p1))))
            origin.append(_simpl(Sym(zint(self.origin[ax]) - zint(p0))))
            lo, hi = self.valid[ax]
            # valid region cannot exceed the un-padded extent
            vlo = z3.If(zint(lo) > 0, zint(lo), z3.IntVal(0))
            vhi = z3.If(zint(hi) < zint(self.shape[ax]), zint(hi), zint(self.shape[ax]))
            valid.append((_simpl(Sym(vlo + zint(p0))), _simpl(Sym(vhi + zint(p0)))))
        fill = (mode, self)
        out = ImgStub(shape, self.root, origin, valid, fill, self.root_shape)
        out.numpy_like = self.numpy_like
        out.dtype = self.dtype
        return out


class _Reshaped:
    _symx_passthrough = True

    def __init__(self, base, shape):
        if len(shape) != 2 * base.ndim:
            raise Unsupported("ImgStub.reshape: only the (n0, b, n1, b, ...) block pattern is modelled")
        self.base = base
        self.shape = tuple(shape)
        ex = cur()
        for ax in range(base.ndim):
            n, b = shape[2 * ax], shape[2 * ax + 1]
            # numpy would raise ValueError if the sizes do not match
            ex.oblige("reshape-size", zint(n) * zint(b) == zint(base.shape[ax]))

    def sum(self, axis=None):
        want = tuple(2 * i + 1 for i in range(self.base.ndim))
        if tuple(axis) != want:
            raise Unsupported(f"ImgStub block sum over axes {axis}, expected {want}")
        bins = tuple(self.shape[2 * i + 1] for i in range(self.base.ndim))
        out = ImgStub(tuple(self.shape[2 * i] for i in range(self.base.ndim)), root=("binned", self.base, bins))
        out.numpy_like = getattr(self.base, "numpy_like", False)
        return out


def _simpl(s):
    if isinstance(s, Sym):
        v = z3.simplify(s.e)
        if z3.is_int_value(v):
            return v.as_long()
        return Sym(v)
    return s


class DaStub:
    """stands for `dask.array` inside loaded modules (shape-only images)"""

    Array = _DaArrayBase

    @staticmethod
    def pad(img, pads, mode="constant", **kw):
        if isinstance(img, ImgStub):
            return img.padded(pads, mode)
        import dask.array as da

        return da.pad(img, pads, mode=mode, **kw)

    @staticmethod
    def from_array(x, **kw):
        return x

    def __getattr__(self, name):
        import dask.array as da

        return getattr(da, name)


class Sampled:
    """Result record of affine_transform / map_coordinates: which source is sampled where."""

    _symx_passthrough = True

    def __init__(self, kind, src, **kw):
        self.kind = kind
        self.src = src
        self.__dict__.update(kw)

    def __repr__(self):
        return f"Sampled({self.kind}, src={self.src!r})"


class NdiStub:
    """scipy.ndimage contract: out[o] = Interp_order(input, M @ (o, 1)); cval outside."""

    def __init__(self):
        self.calls = []

    def affine_transform(self, input, matrix, offset=0.0, output_shape=None, output=None, order=3,
                         mode="constant", cval=0.0, prefilter=True):
        rec = Sampled("affine_transform", input, matrix=matrix, output_shape=output_shape, order=order,
                      mode=mode, cval=cval, prefilter=prefilter)
        self.calls.append(rec)
        return rec

    def map_coordinates(self, input, coordinates, output=None, order=3, mode="constant", cval=0.0, prefilter=True):
        rec = Sampled("map_coordinates", input, coordinates=coordinates, order=order, mode=mode, cval=cval,
                      prefilter=prefilter)
        self.calls.append(rec)
        if hasattr(coordinates, "_sampled_result"):
            return coordinates._sampled_result(rec)
        exact = _lookup_at_integer_nodes(input, coordinates, cval)
        if exact is not None:
            return exact
        return rec

    def spline_filter(self, input, order=3, output=np.float64, mode="mirror"):
        rec = Sampled("spline_filter", input, order=order, mode=mode)
        self.calls.append(rec)
        return rec

    @staticmethod
    def sum_labels(input, labels=None, index=None):
        """plain grouping sum (exact)"""
        inp = A._obj(A.to_symarray(input)).reshape(-1)
        lab = np.asarray(labels).reshape(-1)
        if getattr(index, "_symx_passthrough", False) and hasattr(index, "length") and not isinstance(index.length, int):
            # a range of symbolic length (labels computed with an opaque square root): one opaque group; callers of this mode only inspect the inputs
            idx = np.empty(1, dtype=object)
            idx[0] = index
        else:
            idx = np.asarray(index).reshape(-1)
        out = np.empty(idx.shape, dtype=object)
        for k, i in enumerate(idx):
            acc = 0
            for v, l in zip(inp, lab):
                if l == i:
                    acc = acc + v
            out[k] = acc
        return out.view(A.SymArray)


class HybridNdi:
    """real scipy.ndimage on concrete data; map_coordinates on a symbolic coordinate mesh returns a
    shape-only array (its values are data dependent)."""

    def __getattr__(self, name):
        from scipy import ndimage

        return getattr(ndimage, name)

    def map_coordinates(self, input, coordinates, *a, **k):
        if hasattr(coordinates, "_sampled_result"):
            rec = Sampled("map_coordinates", input, coordinates=coordinates, **k)
            return coordinates._sampled_result(rec)
        from scipy import ndimage

        return ndimage.map_coordinates(input, coordinates, *a, **k)


def _lookup_at_integer_nodes(input, coordinates, cval):
    """spline interpolation reproduces the samples at the nodes: if every coordinate is a concrete integer inside the array,
    map_coordinates(input, coords) = input[coords] (any order; outside -> cval for mode='constant')"""
    try:
        c = np.asarray(A._obj(A.to_symarray(coordinates)) if not isinstance(coordinates, np.ndarray) else A._obj(coordinates))
    except Exception:
        return None
    if c.ndim < 2 or is_symbolic_any(c):
        return None
    inp = A._obj(A.to_symarray(input))
    if c.shape[0] != inp.ndim:
        return None
    out = np.empty(c.shape[1:], dtype=object)
    for idx in np.ndindex(c.shape[1:]):
        pt = [c[(a,) + idx] for a in range(inp.ndim)]
        try:
            ipt = [int(v) for v in pt]
        except Exception:
            return None
        if any(float(v) != float(i) for v, i in zip(pt, ipt)):
            return None
        if all(0 <= i < n for i, n in zip(ipt, inp.shape)):
            out[idx] = inp[tuple(ipt)]
        else:
            out[idx] = cval
    return out.view(A.SymArray)


def is_symbolic_any(arr):
    return any(is_symbolic(v) for v in np.asarray(arr, dtype=object).reshape(-1))


def make_backend(api_module, np_shim, ndi=None, fft=None):
    """An instance of the *real* Backend class (loaded from source) over the shims."""
    B = api_module.Backend
    b = B.__new__(B)
    b._xp_ = np_shim
    b._ndi_ = ndi if ndi is not None else NdiStub()
    b._fft_ = fft
    return b


class LazyArr:
    """dask.array.from_delayed(value, shape, dtype) with a declared shape that may be symbolic.
    Contract: .compute() is value.compute(); .shape is the declared shape."""

    _symx_passthrough = True

    def __init__(self, value, shape, dtype=None, **kw):
        self.value = value
        self.shape = tuple(shape)
        self.dtype = dtype

    @property
    def ndim(self):
        return len(self.shape)

    def compute(self, **kw):
        return self.value.compute(**kw)


_DASK_PATCHED = False


def compute_together(tasks):
    """compute all tasks in ONE dask graph, as the loaders do (construct_dask().compute()): tasks that share a key are merged by dask,
    so colliding task keys become visible; falls back to one-by-one for stand-in tasks that are not dask collections"""
    import dask

    tasks = list(tasks)
    if tasks and all(dask.is_dask_collection(t) for t in tasks):
        return list(dask.compute(*tasks))
    return [t.compute() for t in tasks]


def patch_dask_from_delayed():
    """In this (worker) process, let dask.array.from_delayed accept symbolic declared shapes."""
    global _DASK_PATCHED
    if _DASK_PATCHED:
        return
    import dask
    import dask.array as da

    dask.config.set(scheduler="synchronous")
    real = da.from_delayed

    def from_delayed(value, shape, dtype=None, meta=None, name=None):
        if any(is_symbolic(s) for s in shape):
            return LazyArr(value, shape, dtype)
        return real(value, shape, dtype=dtype, meta=meta, name=name)

    da.from_delayed = from_delayed
    _DASK_PATCHED = True


def like(real, fn):
    """a stand-in for `real`: the call is bound against the signature of the function it replaces (defaults applied) and `fn` receives the
    arguments positionally in declaration order - so positional and keyword spellings of the same call reach the stand-in identically, and a
    call the real function would reject (unknown keyword, missing argument) is rejected here too."""
    import inspect

    try:
        sig = inspect.signature(real)
    except (TypeError, ValueError):
        return fn

    def w(*a, **k):
        b = sig.bind(*a, **k)
        b.apply_defaults()
        return fn(*b.args, **b.kwargs)

    w.__name__ = getattr(real, "__name__", "stand_in")
    w.__wrapped_stand_in__ = fn
    return w
