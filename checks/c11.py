"""C11 -- molecule poses obey rigid-motion algebra in z,y,x order.

Real code: Molecules.x/y/z, rotate_by*, translate*, linear_transform, affine_matrix, local_coordinates, matrix,
quaternion, from_quat/from_rotvec/from_matrix/from_euler, euler_angle, copy, cross (acryo/molecules/core.py);
translate_euler, from_euler_xyz_coords (acryo/molecules/_rotation.py).
"""
from __future__ import annotations

import itertools
from fractions import Fraction

import numpy as np
import z3

from symx import harness, load, rotation, stubs, smt
from symx import core as C
import math
from symx.arrays import SymArray, to_symarray, _obj
from symx.core import Sym, explore, lift, real, _real, _coerce
from symx.plshim import PlShim

from .common import TRUSTED, fl, frac, quick, select

PID = "C11"
MODS = ["acryo.molecules._rotation", "acryo.molecules.core"]


def zr(x):
    return _real(lift(_coerce(x)))


def _load(patches=None):
    return load.load(MODS, overrides={"Rotation": rotation.SymRotation, "pl": PlShim()}, patches=patches)


def _qsym(stem):
    q = [real(f"{stem}{c}") for c in "xyzw"]
    return q, sum((c.e * c.e for c in q), z3.RealVal(0)) == 1


def _mat(q):
    return rotation.quat_to_matrix(*q)


def _mat_eq(A_, B_):
    return z3.And(*[zr(A_[i, j]) == zr(B_[i, j]) for i in range(3) for j in range(3)])


# ---------------------------------------------------------------------------------------
# replay on the real Molecules with floating point


def replay_algebra(cex):
    """checks the same algebra numerically on random poses (the identities are input independent)"""
    from acryo import Molecules
    from scipy.spatial.transform import Rotation

    rng = np.random.default_rng(0)
    bad = []
    for _ in range(6):
        pos = rng.normal(size=(3, 3)) * 10
        rot = Rotation.random(3, random_state=int(rng.integers(1 << 30)))
        m = Molecules(pos, rot)
        R = rot.as_matrix()
        e = np.eye(3)
        if not (np.allclose(m.x, R @ e[2]) and np.allclose(m.y, R @ e[1]) and np.allclose(m.z, R @ e[0])):
            bad.append("axes")
        # right-handed in zyx: z = -np.cross(x, y)
        if not np.allclose(m.z, -np.cross(m.x, m.y), atol=1e-6):
            bad.append("handedness")
        g = Rotation.random(3, random_state=int(rng.integers(1 << 30)))
        if not (np.allclose(m.rotate_by(g).rotator.as_matrix(), (g * rot).as_matrix()) and np.allclose(m.rotate_by(g).pos, pos)):
            bad.append("rotate_by")
        s = rng.normal(size=(3, 3))
        if not np.allclose(m.translate_internal(s).pos, pos + np.einsum("nij,nj->ni", R, s), atol=1e-5):
            bad.append("translate_internal")
        v = rng.normal(size=(3, 3)) * 0.7
        want = (rot * Rotation.from_rotvec(v)).as_matrix()
        if not np.allclose(m.rotate_by_rotvec_internal(v).rotator.as_matrix(), want, atol=1e-6):
            bad.append("rotate_by_rotvec_internal")
        fwd = m.linear_transform(s, Rotation.from_rotvec(v))
        back = fwd.linear_transform(s, Rotation.from_rotvec(v), inv=True)
        if not (np.allclose(back.pos, pos, atol=1e-4) and np.allclose(back.rotator.as_matrix(), R, atol=1e-6)):
            bad.append("linear_transform-inverse")
        lc = m.local_coordinates((3, 4, 5), scale=0.5, squeeze=False)
        k = np.array([2, 1, 3])
        want = pos / 0.5 + np.einsum("nij,j->ni", R, k - (np.array([3, 4, 5]) - 1) / 2)
        if not np.allclose(lc[:, :, 2, 1, 3], want, atol=1e-4):
            bad.append("local_coordinates")
    return len(bad) > 0, {"failed": sorted(set(bad))}


def replay_alias(cex):
    from acryo import Molecules
    from scipy.spatial.transform import Rotation

    bad = []
    for nm in ("rotate_by", "rotate_by_rotvec_internal", "translate", "copy", "with_features"):
        m = Molecules(np.array([[1.0, 2.0, 3.0], [4.0, 5.0, 6.0]]), Rotation.from_rotvec([[0.1, 0.2, 0.3], [0.3, 0.2, 0.1]]), features={"a": [1, 2]})
        p0, q0 = m.pos.copy(), m.quaternion().copy()
        g = Rotation.from_rotvec([[0.2, 0.0, 0.1]] * 2)
        c = {"rotate_by": lambda: m.rotate_by(g), "rotate_by_rotvec_internal": lambda: m.rotate_by_rotvec_internal([[0.1, 0.0, 0.2]] * 2), "translate": lambda: m.translate([1, 1, 1]),
             "copy": lambda: m.copy(), "with_features": lambda: m.with_features(__import__("polars").col("a") + 1)}[nm]()
        c.translate([5.0, 5.0, 5.0], copy=False)
        c.rotate_by(g, copy=False)
        if not (np.allclose(m.pos, p0) and np.allclose(m.quaternion(), q0)):
            bad.append(nm)
    return len(bad) > 0, {"original_changed_after_in_place_edit_of": bad}


# ---------------------------------------------------------------------------------------


def sec_axes(rec, patches=None):
    L = _load(patches)
    MC = L["acryo.molecules.core"]
    rec.encodes("acryo/molecules/core.py:Molecules.__init__", "acryo/molecules/core.py:Molecules.x", "acryo/molecules/core.py:Molecules.y", "acryo/molecules/core.py:Molecules.z",
                "acryo/molecules/core.py:cross", "acryo/molecules/core.py:Molecules.matrix", "acryo/molecules/core.py:Molecules.quaternion")
    q, hq = _qsym("q")
    p = [real(f"p{a}") for a in range(3)]
    hyps = [hq]
    names = {f"q{c}" for c in "xyzw"}

    def run():
        m = MC.Molecules(to_symarray([p]), rotation.SymRotation([q]))
        return m, m.x, m.y, m.z, MC.cross(m.x, m.y, axis=1), m.matrix(), m.quaternion()

    for pi, pth in enumerate(explore(run, assumptions=hyps)):
        if not pth.ok:
            rec.fact("axes/runs", False, key="C11/axes/raises", detail={"exc": repr(pth.exc)[:200]}, reproduced=replay_algebra({})[0])
            continue
        m, x, y, z, cz, mat, quat = pth.result
        h = hyps + [pth.condition()]
        R = _mat(q)
        e = {"x": (0, 0, 1), "y": (0, 1, 0), "z": (1, 0, 0)}
        for nm, vec in (("x", x), ("y", y), ("z", z)):
            for a in range(3):
                want = sum((zr(R[a, b]) * e[nm][b] for b in range(3)), z3.RealVal(0))
                rec.query(f"axes/{nm}{a}=R.e", h, zr(vec[0, a]) == want, key="C11/axes/images-of-basis", names=names, replay=replay_algebra, nonlinear=True)
        vs = {"x": x, "y": y, "z": z}
        for a_, b_ in itertools.combinations_with_replacement("xyz", 2):
            dot = sum((zr(vs[a_][0, k]) * zr(vs[b_][0, k]) for k in range(3)), z3.RealVal(0))
            rec.query(f"axes/{a_}.{b_}={int(a_ == b_)}", h, dot == (1 if a_ == b_ else 0), key="C11/axes/orthonormal", names=names, replay=replay_algebra, nonlinear=True)
        for a in range(3):
            rec.query(f"axes/z=cross_zyx(x,y)[{a}]", h, zr(cz[0, a]) == zr(z[0, a]), key="C11/axes/right-handed", names=names, replay=replay_algebra, nonlinear=True)
        rec.query("axes/matrix()", h, _mat_eq(mat[0], R), key="C11/axes/matrix", names=names, nonlinear=True)
        rec.fact("axes/quaternion()", all(z3.eq(zr(quat[0, k]), q[k].e) for k in range(4)), key="C11/axes/quaternion", detail={})


def replay_from_axes_pairs(cex):
    """installed library: from_axes with every pair of axes of known molecules reproduces all three axes"""
    with load.real_modules():
        from acryo import Molecules
        from scipy.spatial.transform import Rotation

        rng = np.random.default_rng(3)
        rot = Rotation.from_quat(np.concatenate([rng.normal(size=(6, 4)), [[0, 0, 0, 1.0], [1.0, 0, 0, 0], [0, 1.0, 0, 0]]]))
        m0 = Molecules(np.zeros((len(rot), 3)), rot)
        bad = {}
        for pair in (("z", "y"), ("z", "x"), ("x", "y")):
            try:
                m = Molecules.from_axes(m0.pos, **{a: getattr(m0, a) for a in pair})
                err = max(float(np.abs(getattr(m, a) - getattr(m0, a)).max()) for a in "zyx")
                if err > 1e-5:
                    bad["from_axes(%s, %s)" % pair] = {"max_axis_error": err}
            except Exception as e:
                bad["from_axes(%s, %s)" % pair] = repr(e)[:160]
        return len(bad) > 0, {"problems": bad}


def sec_from_axes_pairs(rec, patches=None):
    """from_axes given (z, x) or (x, y): the axis it derives before building the rotation is the molecule's own third axis, for every orientation
    (the two-axes -> rotation step, axes_to_rotator, is recorded here and decided in the align-rotator / axes-degenerate sections)"""
    L = _load(patches)
    MC = L["acryo.molecules.core"]
    rec.encodes("acryo/molecules/core.py:Molecules.from_axes (completion of the missing axis)", "acryo/molecules/core.py:cross")
    rec.assume("axes_to_rotator is replaced by a recorder of its (z, y) arguments; the orientation is an arbitrary unit quaternion")
    q, hq = _qsym("q")
    hyps = [hq]
    names = {f"q{c}" for c in "xyzw"}
    seen = []

    def rec_rot(z, y, *a, **k):
        seen.append((z, y))
        return "ROTATOR"

    MC.axes_to_rotator = rec_rot
    fake_cls = lambda pos, rotator=None, *a, **k: ("MOLECULES", rotator)  # noqa: E731
    pos = np.zeros((1, 3))
    for pair in (("z", "y"), ("z", "x"), ("x", "y")):
        def run():
            del seen[:]
            m = MC.Molecules(to_symarray([[0, 0, 0]]), rotation.SymRotation([q]))
            ax = {"z": m.z, "y": m.y, "x": m.x}
            out = MC.Molecules.from_axes.__func__(fake_cls, pos, **{a: ax[a] for a in pair})
            return ax, list(seen), out

        tag = "from_axes(%s,%s)" % pair
        for pi, pth in enumerate(explore(run, assumptions=hyps, max_paths=20)):
            if not pth.ok:
                rec.fact(f"{tag}/path{pi}/runs", False, key="C11/from_axes/raises", detail={"exc": repr(pth.exc)[:200]}, reproduced=replay_from_axes_pairs({})[0])
                continue
            ax, sn, out = pth.result
            h = hyps + [pth.condition()]
            ok1 = len(sn) == 1 and isinstance(out, tuple) and out[1] == "ROTATOR"
            rec.fact(f"{tag}/path{pi}/one-rotation-from-(z,y)", ok1, key="C11/from_axes/structure", detail={"calls": len(sn)}, reproduced=True if ok1 else replay_from_axes_pairs({})[0])
            if not ok1:
                continue
            gz, gy = (_obj(to_symarray(v)).reshape(-1, 3) for v in sn[0])
            for nm, got in (("z", gz), ("y", gy)):
                want = _obj(ax[nm]).reshape(-1, 3)
                for a in range(3):
                    rec.query(f"{tag}/path{pi}/{nm}{a}-handed-to-the-rotation-is-the-molecule's-{nm}", h, zr(got[0, a]) == zr(want[0, a]), key="C11/from_axes/derived-axis", names=names, replay=replay_from_axes_pairs,
                              nonlinear=True)


def sec_motion(rec, qm=None, patches=None):
    """world/internal rotations and translations, copy semantics (molecule orientation = exact rational quaternion qm, everything else symbolic)"""
    L = _load(patches)
    MC = L["acryo.molecules.core"]
    rec.encodes("acryo/molecules/core.py:Molecules.rotate_by", "acryo/molecules/core.py:Molecules.rotate_by_quaternion", "acryo/molecules/core.py:Molecules.rotate_by_matrix",
                "acryo/molecules/core.py:Molecules.rotate_by_rotvec", "acryo/molecules/core.py:Molecules.rotate_by_rotvec_internal", "acryo/molecules/core.py:Molecules.translate",
                "acryo/molecules/core.py:Molecules.translate_internal", "acryo/molecules/core.py:Molecules.linear_transform", "acryo/molecules/core.py:Molecules.copy")
    g, hg = _qsym("g")
    p = [real(f"p{a}") for a in range(3)]
    s = [real(f"s{a}") for a in range(3)]
    hyps = [hg]
    names = {f"g{c}" for c in "xyzw"} | {f"p{a}" for a in range(3)} | {f"s{a}" for a in range(3)}
    qm = list(qm)
    Rm = _mat(qm)
    Rg = _mat(g)
    tag = f"motion[Rm={[str(v) for v in qm]}]"
    feats = {"f": [7]}

    def run():
        m = MC.Molecules(to_symarray([p]), rotation.SymRotation([qm]), features=feats)
        grot = rotation.SymRotation([g])
        out = {}
        out["rotate_by"] = m.rotate_by(grot)
        out["rotate_by_quaternion"] = m.rotate_by_quaternion(to_symarray([g]))
        out["rotate_by_matrix"] = m.rotate_by_matrix(grot.as_matrix())
        out["translate"] = m.translate(to_symarray(s))
        out["translate_internal"] = m.translate_internal(to_symarray(s))
        v = grot.as_rotvec()
        out["rotvec_world"] = m.rotate_by_rotvec(v)
        out["rotvec_internal"] = m.rotate_by_rotvec_internal(v)
        out["fwd"] = m.linear_transform(to_symarray([s]), grot)
        out["inv"] = m.linear_transform(to_symarray([s]), grot, inv=True)
        out["copy"] = m.copy()
        # two-step histories: an in-place edit of a copy=True result must not reach the original
        chained = {}
        for nm in ("rotate_by", "rotvec_internal", "translate", "copy"):
            c = {"rotate_by": lambda: m.rotate_by(grot), "rotvec_internal": lambda: m.rotate_by_rotvec_internal(v), "translate": lambda: m.translate(to_symarray(s)),
                 "copy": lambda: m.copy()}[nm]()
            c.translate(to_symarray(s), copy=False)
            c.rotate_by(grot, copy=False)
            chained[nm] = [m.pos[0, a] for a in range(3)] + list(m.quaternion()[0])
        out["_chained"] = chained
        return m, out

    for pi, pth in enumerate(explore(run, assumptions=hyps, max_paths=20)):
        if not pth.ok:
            rec.fact(f"{tag}/runs", False, key="C11/motion/raises", detail={"exc": repr(pth.exc)[:300]}, reproduced=replay_algebra({})[0])
            continue
        m, out = pth.result
        h = hyps + [pth.condition()]
        for (lab, cond, npc, ndef) in pth.obligations:
            if lab.startswith("rotvec"):
                rec.query(f"{tag}/{lab}", hyps + [pth.cond_at(npc, ndef)], cond, key=f"C11/stub-obligation/{lab}", names=names, twin=False, nonlinear=True, timeout_ms=60000)

        def R_of(mol):
            return mol.rotator.as_matrix()[0]

        def pos_is(mol, want, label, key):
            for a in range(3):
                rec.query(f"{tag}/{label}/pos{a}", h, zr(mol.pos[0, a]) == want[a], key=key, names=names, replay=replay_algebra, nonlinear=True, timeout_ms=60000)

        P = [x.e for x in p]
        RgRm = rotation.A._matmul(Rg, Rm)
        RmRg = rotation.A._matmul(Rm, Rg)
        for nm in ("rotate_by", "rotate_by_quaternion", "rotate_by_matrix", "rotvec_world"):
            rec.query(f"{tag}/{nm}/orientation=G.Rm", h, _mat_eq(R_of(out[nm]), RgRm), key="C11/motion/world-rotation-composes-on-the-left", names=names, replay=replay_algebra,
                      nonlinear=True, timeout_ms=60000)
            pos_is(out[nm], P, nm, "C11/motion/world-rotation-moves-position")
        rec.query(f"{tag}/rotvec_internal/orientation=Rm.G", h, _mat_eq(R_of(out["rotvec_internal"]), RmRg), key="C11/motion/internal-rotation-composes-on-the-right", names=names,
                  replay=replay_algebra, nonlinear=True, timeout_ms=60000)
        pos_is(out["rotvec_internal"], P, "rotvec_internal", "C11/motion/internal-rotation-moves-position")
        pos_is(out["translate"], [P[a] + s[a].e for a in range(3)], "translate", "C11/motion/translate")
        pos_is(out["translate_internal"], [P[a] + sum((zr(Rm[a, b]) * s[b].e for b in range(3)), z3.RealVal(0)) for a in range(3)], "translate_internal", "C11/motion/translate_internal")
        for nm in ("translate", "translate_internal"):
            rec.query(f"{tag}/{nm}/orientation-unchanged", h, _mat_eq(R_of(out[nm]), Rm), key="C11/motion/translation-changes-orientation", names=names, nonlinear=True)
        # closed forms of the forward map F(p, R) = (p + R s, R G) and of inv=True, F^-1(p, R) = (p - R G^T s, R G^T);
        # F^-1(F(p, R)) = (p + R s - R G G^T s, R G G^T) = (p, R) then is an algebraic consequence for every rotation R
        RmGt = rotation.A._matmul(Rm, Rg.T)
        pos_is(out["fwd"], [P[a] + sum((zr(Rm[a, b]) * s[b].e for b in range(3)), z3.RealVal(0)) for a in range(3)], "linear_transform", "C11/motion/linear_transform")
        rec.query(f"{tag}/linear_transform/orientation=Rm.G", h, _mat_eq(R_of(out["fwd"]), RmRg), key="C11/motion/linear_transform", names=names, replay=replay_algebra,
                  nonlinear=True, timeout_ms=60000)
        pos_is(out["inv"], [P[a] - sum((zr(RmGt[a, b]) * s[b].e for b in range(3)), z3.RealVal(0)) for a in range(3)], "linear_transform(inv)", "C11/motion/linear_transform-inverse")
        rec.query(f"{tag}/linear_transform(inv)/orientation=Rm.G^T", h, _mat_eq(R_of(out["inv"]), RmGt), key="C11/motion/linear_transform-inverse", names=names, replay=replay_algebra,
                  nonlinear=True, timeout_ms=60000)
        # copy=True: the original is untouched (identity and content); features are not shared mutable state
        same = all(z3.eq(zr(m.pos[0, a]), p[a].e) for a in range(3)) and all(Fraction(_coerce(m.quaternion()[0, k])) == Fraction(qm[k]) for k in range(4)) \
            and m.features["f"].to_list() == [7]
        rec.fact(f"{tag}/original-untouched-by-copy=True-operations", bool(same), key="C11/motion/copy-mutates-original", detail={})
        chained = out.pop("_chained")
        for nm, vals in chained.items():
            okc = all(z3.eq(z3.simplify(zr(vals[a])), p[a].e) for a in range(3)) and all(Fraction(_coerce(vals[3 + k])) == Fraction(qm[k]) for k in range(4))
            okr, det = (True, {}) if okc else replay_alias({})
            rec.fact(f"{tag}/{nm}-then-in-place-edit-of-the-result/original-untouched", bool(okc), key="C11/motion/copy-aliases-original", detail={"first_op": nm, **det}, reproduced=okr)
        for nm, o in out.items():
            rec.fact(f"{tag}/{nm}/new-object", o is not m, key="C11/motion/returns-self-when-copy", detail={"op": nm})
        cp = out["copy"]
        rec.fact(f"{tag}/copy/equal-content", all(z3.eq(zr(cp.pos[0, a]), p[a].e) for a in range(3)) and cp.features["f"].to_list() == [7], key="C11/motion/copy-content", detail={})


def sec_motion_batch(rec, patches=None):
    """two molecules, per-molecule rotation vectors and shifts ((N, 3) arguments): row i of the result is molecule i moved by ITS vector"""
    L = _load(patches)
    MC = L["acryo.molecules.core"]
    rec.encodes("acryo/molecules/core.py:Molecules.rotate_by_rotvec_internal ((N,3) vectors)", "acryo/molecules/core.py:Molecules.rotate_by_rotvec ((N,3))", "acryo/molecules/core.py:Molecules.translate_internal ((N,3))",
                "acryo/molecules/core.py:Molecules.translate ((N,3))")
    qms = [list(rotation.R30[9]), list(rotation.R30[4])]
    gs = [_qsym("g"), _qsym("k")]
    hyps = [gs[0][1], gs[1][1]]
    P = [[real(f"p{i}_{a}") for a in range(3)] for i in range(2)]
    S = [[real(f"s{i}_{a}") for a in range(3)] for i in range(2)]
    names = None
    tag = "motion-batch[N=2]"

    def run():
        m = MC.Molecules(to_symarray(P), rotation.SymRotation(qms))
        grot = rotation.SymRotation([gs[0][0], gs[1][0]])
        v = grot.as_rotvec()
        return {"rotvec_internal": m.rotate_by_rotvec_internal(v), "rotvec_world": m.rotate_by_rotvec(v), "translate_internal": m.translate_internal(to_symarray(S)), "translate": m.translate(to_symarray(S))}

    from symx.core import Unsupported as _Unsup

    try:
        paths = explore(run, assumptions=hyps, max_paths=20)
    except _Unsup as e:
        # the rotation stand-in cannot interpret what the code built (e.g. a rotation vector mixing components of different molecules): decided on the installed library
        ok, det = replay_algebra({})
        if ok:
            rec.fact(f"{tag}/row-i-moved-by-its-own-vector (engine could not follow: {str(e)[:80]})", False, key="C11/motion/internal-rotation-composes-on-the-right", detail=det, reproduced=True)
        else:
            rec.inconclusive(f"{tag}", f"engine cannot follow and the installed library shows no problem: {e}")
        return
    for pi, pth in enumerate(paths):
        if not pth.ok:
            rec.fact(f"{tag}/runs", False, key="C11/motion/raises", detail={"exc": repr(pth.exc)[:300]}, reproduced=replay_algebra({})[0])
            continue
        out = pth.result
        h = hyps + [pth.condition()]
        for i in range(2):
            Rm, Rg = _mat(qms[i]), _mat(gs[i][0])
            kw = dict(replay=replay_algebra, nonlinear=True, timeout_ms=60000)
            rec.query(f"{tag}/rotvec_internal/row{i}=Rm_{i}.G_{i}", h, _mat_eq(out["rotvec_internal"].rotator.as_matrix()[i], rotation.A._matmul(Rm, Rg)), key="C11/motion/internal-rotation-composes-on-the-right", **kw)
            rec.query(f"{tag}/rotvec_world/row{i}=G_{i}.Rm_{i}", h, _mat_eq(out["rotvec_world"].rotator.as_matrix()[i], rotation.A._matmul(Rg, Rm)), key="C11/motion/world-rotation-composes-on-the-left", **kw)
            for a in range(3):
                rec.query(f"{tag}/translate_internal/row{i}/pos{a}", h, zr(out["translate_internal"].pos[i, a]) == P[i][a].e + sum((zr(Rm[a, b]) * S[i][b].e for b in range(3)), z3.RealVal(0)),
                          key="C11/motion/translate_internal", **kw)
                rec.query(f"{tag}/translate/row{i}/pos{a}", h, zr(out["translate"].pos[i, a]) == P[i][a].e + S[i][a].e, key="C11/motion/translate", **kw)
                rec.query(f"{tag}/rotvec_internal/row{i}/pos{a}-unchanged", h, zr(out["rotvec_internal"].pos[i, a]) == P[i][a].e, key="C11/motion/internal-rotation-moves-position", **kw)


def sec_inplace(rec, patches=None):
    """copy=False updates the object itself and returns it"""
    L = _load(patches)
    MC = L["acryo.molecules.core"]
    p = [real(f"p{a}") for a in range(3)]
    s = [real(f"s{a}") for a in range(3)]
    qm = list(rotation.R30[9])

    def run():
        m = MC.Molecules(to_symarray([p]), rotation.SymRotation([qm]))
        r = m.translate(to_symarray(s), copy=False)
        return m, r

    for pth in explore(run):
        if not pth.ok:
            rec.fact("inplace/runs", False, key="C11/inplace/raises", detail={"exc": repr(pth.exc)[:200]})
            continue
        m, r = pth.result
        rec.fact("inplace/translate(copy=False)-returns-self", r is m, key="C11/inplace/returns-self", detail={})
        for a in range(3):
            rec.query(f"inplace/pos{a}", [], zr(m.pos[0, a]) == p[a].e + s[a].e, key="C11/inplace/value", twin=False)


def sec_coords(rec, qm=None, patches=None):
    """affine_matrix and local_coordinates agree with the axes and the position"""
    L = _load(patches)
    MC = L["acryo.molecules.core"]
    rec.encodes("acryo/molecules/core.py:Molecules.affine_matrix", "acryo/molecules/core.py:Molecules.local_coordinates")
    q, hq = _qsym("q")
    p = [real(f"p{a}") for a in range(3)]
    src = [real(f"c{a}") for a in range(3)]
    scale = real("scale")
    hyps = [hq, scale.e > 0]
    names = {f"q{c}" for c in "xyzw"} | {f"p{a}" for a in range(3)} | {"scale"}
    shape = (2, 3, 2)

    def run():
        m = MC.Molecules(to_symarray([p]), rotation.SymRotation([q]))
        return m.affine_matrix(to_symarray(src)), m.affine_matrix(to_symarray(src), inverse=True), m.local_coordinates(shape, scale, squeeze=False)

    R = _mat(q)
    for pth in explore(run, assumptions=hyps):
        if not pth.ok:
            rec.fact("coords/runs", False, key="C11/coords/raises", detail={"exc": repr(pth.exc)[:300]}, reproduced=replay_algebra({})[0])
            continue
        am, ami, lc = pth.result
        h = hyps + [pth.condition()]
        v = [z3.Real(f"v{a}") for a in range(3)]
        for a in range(3):
            got = sum((zr(am[0, a, b]) * v[b] for b in range(3)), z3.RealVal(0)) + zr(am[0, a, 3])
            want = p[a].e + sum((zr(R[a, b]) * (v[b] - src[b].e) for b in range(3)), z3.RealVal(0))
            rec.query(f"coords/affine_matrix/row{a}", h, got == want, key="C11/coords/affine_matrix", names=names, replay=replay_algebra, nonlinear=True, timeout_ms=60000)
            goti = sum((zr(ami[0, a, b]) * v[b] for b in range(3)), z3.RealVal(0)) + zr(ami[0, a, 3])
            wanti = p[a].e + sum((zr(R[b, a]) * (v[b] - src[b].e) for b in range(3)), z3.RealVal(0))
            rec.query(f"coords/affine_matrix(inverse)/row{a}", h, goti == wanti, key="C11/coords/affine_matrix-inverse", names=names, nonlinear=True, timeout_ms=60000)
        ctr = [Fraction(n - 1, 2) for n in shape]
        for k in np.ndindex(shape):
            for a in range(3):
                want = p[a].e / scale.e + sum((zr(R[a, b]) * (k[b] - ctr[b]) for b in range(3)), z3.RealVal(0))
                rec.query(f"coords/local_coordinates{k}[{a}]", h, zr(lc[0, a][k]) == want, key="C11/coords/local_coordinates", names=names, replay=replay_algebra, nonlinear=True,
                          timeout_ms=60000, twin=False)


def replay_representations(cex):
    """installed library: several molecules built from quaternions / rotation vectors / Euler angles give the same rows back, molecule by molecule"""
    from acryo import Molecules
    from scipy.spatial.transform import Rotation

    rng = np.random.default_rng(5)
    n = 4
    pos = rng.normal(size=(n, 3))
    bad = {}
    rot = Rotation.random(n, random_state=3)
    q = rot.as_quat()
    got = Molecules.from_quat(pos, q).quaternion()
    if got.shape != q.shape or not np.allclose(np.abs(np.sum(got * q, axis=1)), 1, atol=1e-9):
        bad["quaternion"] = True
    rv = rot.as_rotvec()
    m = Molecules.from_rotvec(pos, rv)
    if not np.allclose(Rotation.from_rotvec(m.rotvec()[:, ::-1] if False else m.rotvec()).magnitude(), rot.magnitude(), atol=1e-9):
        bad["rotvec-magnitude"] = True
    for seq in ("ZXZ", "zyx", "XYZ", "yxz"):
        for deg in (False, True):
            ang = rng.uniform(0.2, 1.2, size=(n, 3)) * (180 / np.pi if deg else 1.0)
            m = Molecules.from_euler(pos, ang, seq=seq, degrees=deg)
            back = np.asarray(m.euler_angle(seq, degrees=deg))
            if back.shape != ang.shape or not np.allclose(back, ang, atol=1e-6):
                bad[f"euler[{seq},degrees={deg}]"] = {"given": ang[:2].round(4).tolist(), "read_back": back[:2].round(4).tolist() if back.ndim == 2 else repr(back.shape)}
            sub = np.asarray(m.subset([1, 2]).euler_angle(seq, degrees=deg))
            if sub.shape != (2, 3) or not np.allclose(sub, back[1:3], atol=1e-9):
                bad[f"euler-subset[{seq},degrees={deg}]"] = True
    return len(bad) > 0, {"problems": bad}


def sec_representations(rec, patches=None):
    """from_quat / from_rotvec / from_matrix / from_euler and reading the same representation back"""
    L = _load(patches)
    MC = L["acryo.molecules.core"]
    MR = L["acryo.molecules._rotation"]
    rec.encodes("acryo/molecules/core.py:Molecules.from_quat", "acryo/molecules/core.py:Molecules.from_rotvec", "acryo/molecules/core.py:Molecules.from_matrix",
                "acryo/molecules/core.py:Molecules.from_euler", "acryo/molecules/core.py:Molecules.euler_angle", "acryo/molecules/core.py:Molecules.rotvec",
                "acryo/molecules/_rotation.py:from_euler_xyz_coords", "acryo/molecules/_rotation.py:translate_euler")
    rec.assume("scipy's Rotation.from_euler(seq, a, degrees) / as_euler(seq, degrees) are an inverse pair for the same seq (uninterpreted stub); from_quat/as_quat likewise")
    q, hq = _qsym("q")
    p = [real(f"p{a}") for a in range(3)]
    ang = [real(f"a{k}") for k in range(3)]
    bng = [real(f"b{k}") for k in range(3)]
    q2, hq2 = _qsym("qq")

    def run():
        m1 = MC.Molecules.from_quat(to_symarray([p, p]), to_symarray([q, q2]))
        m2 = MC.Molecules.from_matrix(to_symarray([p]), rotation.SymRotation([q]).as_matrix())
        outs = {}
        for seq in ("ZXZ", "zyx", "XYZ", "yxz"):
            for deg in (False, True):
                for order in ("xyz", "zyx"):
                    m = MC.Molecules.from_euler(to_symarray([p, p]), to_symarray([ang, bng]), seq=seq, degrees=deg, order=order)
                    if order == "xyz":
                        outs[(seq, deg, order)] = m.euler_angle(seq, degrees=deg)
                    else:
                        outs[(seq, deg, order)] = m.rotator.as_euler(seq, degrees=deg)
        return m1, m2, outs

    for pth in explore(run, assumptions=[hq, hq2]):
        if not pth.ok:
            rec.fact("representations/runs", False, key="C11/representations/raises", detail={"exc": repr(pth.exc)[:300]}, reproduced=replay_representations({})[0])
            continue
        m1, m2, outs = pth.result
        okq = m1.quaternion().shape == (2, 4) and all(z3.eq(zr(m1.quaternion()[r, k]), (q, q2)[r][k].e) for r in range(2) for k in range(4))
        rec.fact("representations/from_quat->quaternion() (2 molecules, row by row)", bool(okq), key="C11/representations/quat", detail={}, reproduced=True if okq else replay_representations({})[0])
        rec.query("representations/from_matrix->matrix()", [hq, pth.condition()], _mat_eq(m2.matrix()[0], _mat(q)), key="C11/representations/matrix", nonlinear=True)
        for key, got in outs.items():
            ok = got.shape == (2, 3) and all(z3.eq(zr(got[r, k]), (ang, bng)[r][k].e) for r in range(2) for k in range(3))
            rec.fact(f"representations/from_euler{key}->same-angles (2 molecules, row by row)", bool(ok), key="C11/representations/euler-round-trip", detail={"got": repr(got)[:160]},
                     reproduced=True if ok else replay_representations({})[0])
    # translate_euler is an involution that maps a zyx-sequence to the scipy xyz-sequence
    bad = []
    for seq in ["".join(s) for s in itertools.product("xyz", repeat=3)] + ["".join(s) for s in itertools.product("XYZ", repeat=3)]:
        t = MR.translate_euler(seq)
        want = "".join({"x": "z", "z": "x", "X": "Z", "Z": "X"}.get(c, c) for c in reversed(seq))
        if MR.translate_euler(t) != seq or t != want:
            bad.append(seq)
    rec.fact("representations/translate_euler-involution (54 sequences)", not bad, key="C11/representations/translate_euler", detail={"bad": bad})


# ---------------------------------------------------------------------------------------
# rotation from two axes: the rotation that _get_align_rotator builds for every row of a batch, degenerate rows included


def _mentions(t, sub):
    seen, stack = set(), [t]
    while stack:
        u = stack.pop()
        if u.get_id() in seen:
            continue
        seen.add(u.get_id())
        if z3.eq(u, sub) or (z3.is_app(u) and u.decl().name() in ("Atan2", "Sqrt")):
            return True
        stack.extend(u.children())
    return False


def _apps(t, name):
    out, seen, stack = [], set(), [t]
    while stack:
        u = stack.pop()
        if u.get_id() in seen:
            continue
        seen.add(u.get_id())
        if z3.is_app(u) and u.decl().name() == name:
            out.append(u)
        stack.extend(u.children())
    return out


class RecRot:
    """Rotation stand-in that records the rotation vectors it is built from (row-wise)"""

    def __init__(self, rotvec):
        self.rotvec = rotvec

    @classmethod
    def from_rotvec(cls, rotvec, degrees=False):
        return cls(to_symarray(rotvec))

    @classmethod
    def identity(cls, num=None):
        return cls(to_symarray(np.zeros((num or 1, 3), dtype=object)))


def replay_axes(cex):
    """installed library: from_axes on batches mixing generic, anti-parallel and parallel rows must reproduce the axes"""
    from acryo import Molecules

    rows_z = [[0.0, 0.6, 0.8], [-1, 0, 0], [1, 0, 0], [0, 0, 1], [-1, 0, 0], [0.6, 0, -0.8]]
    rows_y = [[0, 0.8, -0.6], [0, 1, 0], [0, 1, 0], [0, -1, 0], [0, -1, 0], [0, -1, 0]]
    bad = []
    import itertools as it

    for n in (1, 2, 3):
        for idx in it.permutations(range(len(rows_z)), n):
            z, y = np.array([rows_z[i] for i in idx], dtype=float), np.array([rows_y[i] for i in idx], dtype=float)
            try:
                m = Molecules.from_axes(np.zeros((n, 3)), z=z, y=y)
                ok = np.allclose(m.z, z, atol=1e-6) and np.allclose(m.y, y, atol=1e-6)
            except Exception as e:
                ok = False
                bad.append({"rows": list(idx), "raised": repr(e)[:100]})
                continue
            if not ok:
                bad.append({"rows": list(idx), "z_given": z.tolist(), "z_of_result": np.round(m.z, 6).tolist(), "y_given": y.tolist(), "y_of_result": np.round(m.y, 6).tolist()})
    # orientations close to (but not at) a half turn: the axes must come back to 1e-6, not be snapped to the exact half turn
    from scipy.spatial.transform import Rotation

    for delta in (5e-4, 1e-4, 2e-5):
        for ax in ([1.0, 0, 0], [0, 0, 1.0], [0, 1.0, 0], [0.6, 0.0, 0.8], [0.0, 0.6, -0.8]):
            m0 = Molecules(np.zeros((2, 3)), Rotation.from_rotvec(np.array([ax, ax]) * np.array([[np.pi - delta], [np.pi + delta]])))
            m = Molecules.from_axes(np.zeros((2, 3)), z=m0.z, y=m0.y)
            err = float(max(np.abs(m.z - m0.z).max(), np.abs(m.y - m0.y).max(), np.abs(m.x - m0.x).max()))
            if err > 1e-6:
                bad.append({"near-half-turn": {"axis": ax, "delta": delta}, "max_axis_error": err})
    return len(bad) > 0, {"n_wrong_batches": len(bad), "examples": bad[:3]}


def replay_euler_rotate(cex):
    """installed library: rotating identity molecules by Euler angles gives the orientation of Molecules.from_euler with the same arguments"""
    from acryo import Molecules

    bad = []
    ang = np.array([[20.0, -35.0, 50.0], [5.0, 80.0, -10.0]])
    for seq in ("ZXZ", "zyx", "XYZ", "yxz"):
        for deg in (False, True):
            for order in ("xyz", "zyx"):
                a = ang if deg else np.deg2rad(ang)
                m0 = Molecules(np.zeros((2, 3)))
                got = m0.rotate_by_euler_angle(a, seq, degrees=deg, order=order)
                want = Molecules.from_euler(np.zeros((2, 3)), a, seq=seq, degrees=deg, order=order)
                if not np.allclose(got.rotator.as_matrix(), want.rotator.as_matrix(), atol=1e-6):
                    bad.append({"seq": seq, "degrees": deg, "order": order})
    return len(bad) > 0, {"n": len(bad), "examples": bad[:6]}


def sec_euler_rotate(rec, patches=None):
    """rotate_by_euler_angle builds the same rotation as Molecules.from_euler for every seq / degrees / order"""
    made = []
    RecEuler = rotation.SymRotation
    orig_from_euler = rotation.SymRotation.__dict__["from_euler"]

    def rec_from_euler(cls, seq, angles, degrees=False):
        made.append((str(seq), to_symarray(angles).copy(), bool(degrees)))
        return orig_from_euler.__func__(cls, seq, angles, degrees)

    rotation.SymRotation.from_euler = classmethod(rec_from_euler)
    try:
        _sec_euler_rotate(rec, patches, made, RecEuler)
    finally:
        rotation.SymRotation.from_euler = orig_from_euler


def _sec_euler_rotate(rec, patches, made, RecEuler):
    L = load.load(MODS, overrides={"Rotation": RecEuler, "pl": PlShim()}, patches=patches)
    MC = L["acryo.molecules.core"]
    rec.encodes("acryo/molecules/core.py:Molecules.rotate_by_euler_angle", "acryo/molecules/core.py:Molecules.from_euler", "acryo/molecules/_rotation.py:from_euler_xyz_coords")
    rec.assume("scipy's Rotation.from_euler is recorded: two rotations are the same if they were built with the same (seq, angles, degrees)")
    ang = [real(f"a{k}") for k in range(3)]
    p = [real(f"p{a}") for a in range(3)]
    for seq in ("ZXZ", "zyx", "XYZ", "yxz"):
        for deg in (False, True):
            for order in ("xyz", "zyx"):
                tag = f"euler-rotate[{seq},degrees={deg},order={order}]"

                def run():
                    del made[:]
                    MC.Molecules.from_euler(to_symarray([p]), to_symarray([ang]), seq=seq, degrees=deg, order=order)
                    ref = list(made)
                    del made[:]
                    m0 = MC.Molecules(to_symarray([p]), RecEuler([[0, 0, 0, 1]]))
                    m0.rotate_by_euler_angle(to_symarray([ang]), seq, degrees=deg, order=order)
                    return ref, list(made)

                for pth in explore(run, max_paths=5):
                    if not pth.ok:
                        rec.fact(f"{tag}/runs", False, key="C11/euler-rotate/raises", detail={"exc": repr(pth.exc)[:300]}, reproduced=replay_euler_rotate({})[0])
                        continue
                    ref, got = pth.result
                    ok1 = len(ref) == 1 and len(got) == 1 and ref[0][0] == got[0][0] and ref[0][2] == got[0][2] == deg
                    rec.fact(f"{tag}/same-sequence-and-unit-flag", bool(ok1), key="C11/euler-rotate/flags", detail={"from_euler": repr(ref[0][::2]) if ref else None, "rotate_by_euler_angle": repr(got[0][::2]) if got else None},
                             reproduced=True if ok1 else replay_euler_rotate({})[0])
                    if ok1:
                        a1, a2 = _obj(ref[0][1]).reshape(-1), _obj(got[0][1]).reshape(-1)
                        rec.query(f"{tag}/same-angles", [], z3.And(*[zr(x) == zr(y) for x, y in zip(a1, a2)]) if len(a1) == len(a2) else z3.BoolVal(False), key="C11/euler-rotate/angles", replay=replay_euler_rotate, twin=False)


def sec_align_rotator(rec, patches=None):
    from symx import angles

    L = load.load(MODS, overrides={"Rotation": RecRot, "pl": PlShim()}, patches=patches)
    MR = L["acryo.molecules._rotation"]
    rec.encodes("acryo/molecules/_rotation.py:_get_align_rotator")
    rec.assume("sqrt and arctan2 are uninterpreted (Sqrt(t)^2 = t, Sqrt >= 0); Rotation.from_rotvec / identity are recorded row-wise: the rotation of row i is determined by rotation vector i; pi is the float 3.14159...")
    src = [[0, 1, 0]]
    g = [real(f"d{a}") for a in range(3)]
    unit = [g[0].e * g[0].e + g[1].e * g[1].e + g[2].e * g[2].e == 1]
    # generic: neither parallel nor anti-parallel to src within the code's own tolerance (1e-6 per component)
    tol = Fraction(1, 10 ** 6)
    generic = [z3.Or(z3.Or(g[0].e >= tol, g[0].e <= -tol), z3.Or(g[2].e >= tol, g[2].e <= -tol))]
    rows = {"generic": g, "anti": [0, -1, 0], "par": [0, 1, 0]}
    C.SQRT_MODE["opaque"] = True
    angles.TRIG_MODE["opaque"] = True
    try:
        batches = [("generic",), ("anti",), ("par",), ("generic", "anti"), ("anti", "generic"), ("generic", "par"), ("par", "anti"), ("anti", "par", "generic"), ("generic", "generic2")]
        g2 = [real(f"e{a}") for a in range(3)]
        rows["generic2"] = g2
        for b in batches:
            hyps = list(unit) + list(generic)
            if "generic2" in b:
                hyps += [g2[0].e * g2[0].e + g2[1].e * g2[1].e + g2[2].e * g2[2].e == 1, z3.Or(z3.Or(g2[0].e >= tol, g2[0].e <= -tol), z3.Or(g2[2].e >= tol, g2[2].e <= -tol))]
            tag = f"align_rotator[batch={'+'.join(b)}]"

            def run():
                dst = to_symarray([rows[k] for k in b])
                return MR._get_align_rotator(src, dst)

            for pi, p in enumerate(explore(run, assumptions=hyps, max_paths=60)):
                h = hyps + [p.condition()]
                if not p.ok:
                    ok, det = replay_axes({})
                    rec.fact(f"{tag}/path{pi}/runs", False, key="C11/axes/align-rotator-raises", detail={"exc": repr(p.exc)[:300], **det}, reproduced=ok)
                    continue
                rv = _obj(to_symarray(p.result.rotvec))
                okshape = rv.shape == (len(b), 3)
                rec.fact(f"{tag}/path{pi}/one-rotation-per-row", okshape, key="C11/axes/align-rotator-rows", detail={"shape": list(rv.shape)}, reproduced=True if okshape else replay_axes({})[0])
                if not okshape:
                    continue
                for i, kind in enumerate(b):
                    v = [zr(rv[i][a]) for a in range(3)]
                    n2 = v[0] * v[0] + v[1] * v[1] + v[2] * v[2]
                    if kind == "anti":
                        # a half turn about an axis orthogonal to src: |rotvec| = pi, rotvec . src = 0
                        pi2 = Fraction(math.pi) * Fraction(math.pi)
                        goal = z3.And(n2 >= pi2 - Fraction(1, 10 ** 6), n2 <= pi2 + Fraction(1, 10 ** 6), v[1] <= Fraction(1, 10 ** 9), v[1] >= -Fraction(1, 10 ** 9))
                        rec.query(f"{tag}/path{pi}/row{i}(anti-parallel)/half-turn-about-an-orthogonal-axis", h, goal, key="C11/axes/anti-parallel-row", replay=replay_axes, twin=False, nonlinear=True)
                    elif kind == "par":
                        rec.query(f"{tag}/path{pi}/row{i}(parallel)/identity", h, n2 == 0, key="C11/axes/parallel-row", replay=replay_axes, twin=False, nonlinear=True)
                    else:
                        d = rows[kind]
                        # rotation vector = (src x dst)/|src x dst| * atan2(|src x dst|, src . dst)
                        cr = [d[2].e, z3.RealVal(0), -d[0].e]  # (0,1,0) x d
                        nrm = C.sym_sqrt(Sym(cr[0] * cr[0] + cr[2] * cr[2])).e
                        th = angles._ATAN2(nrm, d[1].e)
                        goal = z3.And(*[v[a] == cr[a] / nrm * th for a in range(3)])
                        rec.query(f"{tag}/path{pi}/row{i}(generic)/axis-angle-of-the-shortest-rotation", h + [nrm * nrm == cr[0] * cr[0] + cr[2] * cr[2], nrm > 0], goal, key="C11/axes/generic-row", replay=replay_axes, twin=False, nonlinear=True)
                        # independent of the formula: with theta the angle whose (sin, cos) = (|src x dst|, src . dst), the vector v/theta is a unit axis n and
                        # Rodrigues' rotation about n by theta maps src to dst.  theta and |src x dst| become plain real variables for the polynomial solver.
                        TH, NR = z3.Real("THETA"), z3.Real("NORM")
                        def sub(t):
                            # every Sqrt(.) application whose argument equals |src x dst|^2 -> NORM, every Atan2(Sqrt.., src.dst) -> THETA
                            pairs = []
                            for u in _apps(t, "Atan2"):
                                pairs.append((u, TH))
                            t = z3.substitute(t, *pairs) if pairs else t
                            pairs = [(u, NR) for u in _apps(t, "Sqrt") if smt.ring_identity(u.children()[0] == d[0].e * d[0].e + d[2].e * d[2].e)]
                            return z3.substitute(t, *pairs) if pairs else t

                        n = [sub(v[a]) / TH for a in range(3)]
                        sv = [z3.RealVal(0), z3.RealVal(1), z3.RealVal(0)]
                        cs, sn = d[1].e, NR
                        nxs = [n[1] * sv[2] - n[2] * sv[1], n[2] * sv[0] - n[0] * sv[2], n[0] * sv[1] - n[1] * sv[0]]
                        nds = n[0] * sv[0] + n[1] * sv[1] + n[2] * sv[2]
                        img = [sv[a] * cs + nxs[a] * sn + n[a] * nds * (1 - cs) for a in range(3)]
                        hy = [x for x in h if not _mentions(x, th)] + [NR * NR == d[0].e * d[0].e + d[2].e * d[2].e, NR > 0, TH != 0]
                        rec.query(f"{tag}/path{pi}/row{i}(generic)/rotvec-over-theta-is-a-unit-axis", hy, n[0] * n[0] + n[1] * n[1] + n[2] * n[2] == 1, key="C11/axes/generic-row-unit-axis", replay=replay_axes, twin=False, nonlinear=True)
                        rec.query(f"{tag}/path{pi}/row{i}(generic)/rotation-about-it-by-theta-maps-src-to-dst", hy, z3.And(*[img[a] == d[a].e for a in range(3)]), key="C11/axes/generic-row-maps-src-to-dst", replay=replay_axes, twin=False, nonlinear=True)
    finally:
        C.SQRT_MODE["opaque"] = False
        angles.TRIG_MODE["opaque"] = False


class PiRot(rotation.SymRotation):
    """SymRotation whose from_rotvec understands the two exact cases met with axis-aligned frames: the zero vector (identity) and
    u * pi with |u| = 1 (half turn about u: quaternion (u, 0)); the unit-length condition is returned as an obligation"""

    obligations = []

    @classmethod
    def from_rotvec(cls, rotvec, degrees=False):
        v = _obj(to_symarray(rotvec)).reshape(-1, 3)
        PI = Fraction(math.pi)
        rows = []
        for r in v:
            if all(not C.is_symbolic(c) and float(c) == 0 for c in r):
                rows.append([0, 0, 0, 1])
                continue
            u = [c / PI for c in r]
            cls.obligations.append(sum((zr(c) * zr(c) for c in u), z3.RealVal(0)) == 1)
            rows.append([u[0], u[1], u[2], 0])
        return cls(rows, normalize=False)


def sec_axes_degenerate(rec, patches=None):
    """axes_to_rotator on frames whose axes are +-ey / +-ex (every step of the construction is the parallel or the anti-parallel case),
    signs symbolic, alone and in two-row batches: the rotation must map ez->z... i.e. R.apply([1,0,0]) = z and R.apply([0,1,0]) = y (z,y,x order)"""
    from symx import angles

    L = load.load(MODS, overrides={"Rotation": PiRot, "pl": PlShim()}, patches=patches)
    MR = L["acryo.molecules._rotation"]
    angles.TRIG_MODE["opaque"] = True  # a degenerate row sent through the generic branch yields a vector that is not u*pi: reported by the unit-axis obligation
    rec.encodes("acryo/molecules/_rotation.py:axes_to_rotator", "acryo/molecules/_rotation.py:_get_align_rotator", "acryo/molecules/_rotation.py:_extract_orthogonal", "acryo/molecules/_rotation.py:_normalize")
    rec.assume("sqrt exact (fresh s with s^2 = t, s >= 0); Rotation.from_rotvec(u*pi) is the half turn about the unit vector u (float pi read as the same constant on both sides)")
    for nrows in (1, 2):
        sy = [real(f"sy{i}") for i in range(nrows)]
        sz = [real(f"sz{i}") for i in range(nrows)]
        hyps = [z3.Or(v.e == 1, v.e == -1) for v in sy + sz]
        tag = f"axes-degenerate[rows={nrows}]"

        def run():
            del PiRot.obligations[:]
            # one path per sign pattern: the solver pins each sign (sy > 0 and (sy = 1 or sy = -1) => sy = 1) before the real code runs
            yv = [1 if bool(v > 0) else -1 for v in sy]
            zv = [1 if bool(v > 0) else -1 for v in sz]
            y = to_symarray([[0, yv[i], 0] for i in range(nrows)])
            z = to_symarray([[zv[i], 0, 0] for i in range(nrows)])
            R = MR.axes_to_rotator(z, y)
            return R.apply([1, 0, 0]), R.apply([0, 1, 0]), list(PiRot.obligations)

        for pi, p in enumerate(explore(run, assumptions=hyps, max_paths=200)):
            h = hyps + [p.condition()]
            if not p.ok:
                ok, det = replay_axes({})
                rec.fact(f"{tag}/path{pi}/runs", False, key="C11/axes/degenerate-raises", detail={"exc": repr(p.exc)[:300], **det}, reproduced=ok)
                continue
            zz, yy, obl = p.result
            zz, yy = _obj(to_symarray(zz)).reshape(-1, 3), _obj(to_symarray(yy)).reshape(-1, 3)
            for k, o in enumerate(obl):
                rec.query(f"{tag}/path{pi}/half-turn-axis{k}-is-a-unit-vector", h, o, key="C11/axes/degenerate-unit-axis", replay=replay_axes, twin=False, nonlinear=True)
            for i in range(nrows):
                rec.query(f"{tag}/path{pi}/row{i}/z-axis-of-the-result-is-the-given-z", h, z3.And(zr(zz[i][0]) == sz[i].e, zr(zz[i][1]) == 0, zr(zz[i][2]) == 0), key="C11/axes/degenerate-z", replay=replay_axes, nonlinear=True,
                          names={f"sy{j}" for j in range(nrows)} | {f"sz{j}" for j in range(nrows)})
                rec.query(f"{tag}/path{pi}/row{i}/y-axis-of-the-result-is-the-given-y", h, z3.And(zr(yy[i][0]) == 0, zr(yy[i][1]) == sy[i].e, zr(yy[i][2]) == 0), key="C11/axes/degenerate-y", replay=replay_axes, nonlinear=True,
                          names={f"sy{j}" for j in range(nrows)} | {f"sz{j}" for j in range(nrows)})


def sections(tier):
    R = rotation.R30
    qs = [R[9], R[10], R[1], R[4]] if quick(tier) else R
    S = [("axes", "checks.c11", "sec_axes", {}), ("from-axes-pairs", "checks.c11", "sec_from_axes_pairs", {}), ("inplace", "checks.c11", "sec_inplace", {}), ("coords", "checks.c11", "sec_coords", {}),
         ("representations", "checks.c11", "sec_representations", {}), ("align-rotator", "checks.c11", "sec_align_rotator", {}), ("axes-degenerate", "checks.c11", "sec_axes_degenerate", {}), ("euler-rotate", "checks.c11", "sec_euler_rotate", {}), ("motion-batch", "checks.c11", "sec_motion_batch", {})]
    for i, q in enumerate(qs):
        S.append((f"motion-{i}", "checks.c11", "sec_motion", {"qm": q}))
    return S


_MC = "acryo.molecules.core"
_MR = "acryo.molecules._rotation"
_Q = {"qm": rotation.R30[9]}
MUTANTS = [
    ("from_axes:y-completed-with-swapped-operands (seeded change C11_12)", "checks.c11", "sec_from_axes_pairs", {}, {_MC: [("            y = cross(z, x, axis=1)\n", "            y = cross(x, z, axis=1)\n")]}),
    ("from_axes:z-completed-with-swapped-operands", "checks.c11", "sec_from_axes_pairs", {}, {_MC: [("            z = cross(x, y, axis=1)\n", "            z = cross(y, x, axis=1)\n")]}),
    ("axes:special-cases-decided-for-the-whole-batch (defect fixed by 'fix: rotation from two axes...')", "checks.c11", "sec_align_rotator", {},
     {_MR: [("antiparallel = np.all(np.abs(src + dst) < 1e-6, axis=1)", "antiparallel = np.all(np.abs(src + dst) < 1e-6) & np.ones(len(dst), dtype=bool)")]}),
    ("axes:second-half-turn-about-an-arbitrary-axis (same fix)", "checks.c11", "sec_axes_degenerate", {}, {_MR: [("rot_z = _get_align_rotator([[1, 0, 0]], z0_trans, antiparallel_axis=[0, 1, 0])", "rot_z = _get_align_rotator([[1, 0, 0]], z0_trans)")]}),
    ("axes:cross-product-reversed", "checks.c11", "sec_align_rotator", {}, {_MR: [("    cross = np.cross(src, dst)\n", "    cross = np.cross(dst, src)\n")]}),
    ("axes:atan2-arguments-swapped", "checks.c11", "sec_align_rotator", {}, {_MR: [("theta = np.arctan2(sin, cos)", "theta = np.arctan2(cos, sin)")]}),
    ("axes:quarter-turn-for-antiparallel", "checks.c11", "sec_align_rotator", {}, {_MR: [("rotvec[antiparallel] = axis / np.linalg.norm(axis) * np.pi", "rotvec[antiparallel] = axis / np.linalg.norm(axis) * np.pi / 2")]}),
    ("axes:z-not-orthogonalised", "checks.c11", "sec_axes_degenerate", {}, {_MR: [("    rot_y = _get_align_rotator([[0, 1, 0]], y0)\n", "    rot_y = _get_align_rotator([[0, 1, 0]], -y0)\n")]}),
    ("axes:x-z-swapped", "checks.c11", "sec_axes", {}, {_MC: [('        """Vectors of x-axis."""\n        return self._rotator.apply(np.array([0.0, 0.0, 1.0]))', '        """Vectors of x-axis."""\n        return self._rotator.apply(np.array([1.0, 0.0, 0.0]))')]}),
    ("axes:cross-sign", "checks.c11", "sec_axes", {}, {_MC: [("    return -np.cross(x, y, axis=axis)  # type: ignore", "    return np.cross(x, y, axis=axis)  # type: ignore")]}),
    ("motion:rotate_by-right-composition", "checks.c11", "sec_motion", _Q, {_MC: [("        rot = rotator * self._rotator\n", "        rot = self._rotator * rotator\n")]}),
    ("motion:translate_internal-world", "checks.c11", "sec_motion", _Q, {_MC: [("        world_shifts = self._rotator.apply(shifts)\n", "        world_shifts = np.asarray(shifts)\n")]}),
    ("motion:translate-in-place-when-copy", "checks.c11", "sec_motion", _Q, {_MC: [("        coords = self._pos + np.asarray(shifts, dtype=np.float32)\n        if copy:", "        self._pos += np.asarray(shifts, dtype=np.float32)\n        coords = self._pos\n        if copy:")]}),
    ("motion:internal-rotvec-uses-world-axes", "checks.c11", "sec_motion", _Q, {_MC: [("        return self.rotate_by_rotvec(world_rotvec, copy=copy)", "        return self.rotate_by_rotvec(vector, copy=copy)")]}),
    ("motion:inverse-shift-sign", "checks.c11", "sec_motion", _Q, {_MC: [("                -np.asarray(shift)\n", "                np.asarray(shift)\n")]}),
    ("motion:rotate_by-shares-features", "checks.c11", "sec_inplace", {}, {_MC: [("            self._pos = coords\n            out = self\n", "            out = self.__class__(coords, self._rotator)\n")]}),
    ("coords:local-centre", "checks.c11", "sec_coords", {}, {_MC: [("            center = [s / 2 - 0.5 for s in shape]", "            center = [s / 2 for s in shape]")]}),
    ("coords:local-scale", "checks.c11", "sec_coords", {}, {_MC: [("            shifts = self.pos[index] / scale", "            shifts = self.pos[index] * scale")]}),
    ("coords:affine-src-dst", "checks.c11", "sec_coords", {}, {_MC: [("        translation_0[:, :3, 3] = dst\n        translation_1[:, :3, 3] = -src", "        translation_0[:, :3, 3] = src\n        translation_1[:, :3, 3] = -dst")]}),
    ("euler:angles-not-reversed", "checks.c11", "sec_representations", {}, {_MC: [("        return self._rotator.as_euler(seq, degrees=degrees)[..., ::-1]", "        return self._rotator.as_euler(seq, degrees=degrees)")]}),
    ("euler:translate-no-reverse", "checks.c11", "sec_representations", {}, {_MR: [("    return seq[::-1].translate(table)", "    return seq.translate(table)")]}),
]


def run(tier, procs=None, only=None):
    S = select(sections(tier), only)
    return harness.run_check(
        PID, tier, S, procs=procs,
        explanation="The Molecules methods are executed on a symbolic unit quaternion / position / shift (molecule orientation from exact rational quaternions where a rotation "
                    "vector is involved); every stated identity (axes = images of the basis, orthonormal, right-handed in zyx, left/right composition, internal translation, "
                    "linear_transform inverse, affine matrices, local coordinates, representation round trips) is a polynomial identity modulo |q| = 1 decided by z3's nlsat.",
        bounds={"axes/coords": "orientation = arbitrary unit quaternion (symbolic)", "motion": ("4" if quick(tier) else "30") + " exact rational molecule orientations; applied rotation, position, shift symbolic",
                "batch": "1 molecule per table (row bookkeeping is C12)", "local_coordinates": "shape (2,3,2), scale symbolic"},
        trusted_base=TRUSTED + ["SymRotation quaternion/rotvec contract", "Euler conversions as an uninterpreted inverse pair"],
        outside=["axes_to_rotator on generic (non axis-aligned) frames: the sqrt/arctan2 chain is decided for axis-aligned and (anti-)parallel frames only (align-rotator, axes-degenerate) and by replay otherwise; from_axes itself is decided up to that call (from-axes-pairs: the missing axis is completed correctly for every orientation)", "as_euler gimbal-lock conventions (scipy's)",
                 "behaviour within 1e-6 of degenerate configurations in IEEE arithmetic"],
        mutants=MUTANTS if (not quick(tier) and not only) else None,
    )


# every real-library oracle of this property (each returns (reproduced, detail)); used to confirm structural facts that carry no replay of their own
ALL_REPLAYS = [replay_algebra, replay_alias, replay_representations, replay_axes, replay_euler_rotate]


def replay(data):
    key = data.get("key", "")
    fn = replay_algebra
    if "representations" in key:
        fn = replay_representations
    elif "euler-rotate" in key:
        fn = replay_euler_rotate
    elif "alias" in key:
        fn = replay_alias
    elif "axes" in key or "align-rotator" in key:
        fn = replay_axes
    ok, detail = fn(data.get("cex") or {})
    print("replay:", detail)
    print("REPRODUCED" if ok else "not reproduced")
    return 1 if ok else 0
