"""symx.shapes -- arrays known only by their (symbolic) extents.

SymRange   : np.arange(a, b) / np.linspace with symbolic bounds: length L = max(0, b - a), element i = start + i*step.
             Supports + - * / with scalars (affine maps of the elements).
MeshStub   : np.stack(np.meshgrid(*ranges, indexing="ij")): the coordinate grid of a map_coordinates call.
ShapeOnly  : an array with symbolic shape and opaque (data dependent) contents: result of map_coordinates on a
             MeshStub, of acryo's _upsampled_dft, ...  Slicing follows Python's slice semantics symbolically;
             integer indexing raises IndexError on the paths where the index is out of range (as numpy would).
ArbIndex   : the result of argmax over data the solver knows nothing about: *any* in-range index.  Unravelled
             into one fresh integer per axis with 0 <= j < extent.  argmax of an empty array raises ValueError.
"""
from __future__ import annotations

import z3

from .core import Sym, SymBool, Unsupported, cur, is_symbolic, lift, _coerce, _real


def zi(x):
    return lift(_coerce(x))


def _simp_int(e):
    v = z3.simplify(e)
    return v.as_long() if z3.is_int_value(v) else Sym(v)


class SymRange:
    _symx_passthrough = True

    def __init__(self, length, start, step):
        self.length = length  # Sym/int  (may be <= 0 symbolically: then the range is empty)
        self.start = start
        self.step = step

    @classmethod
    def arange(cls, *args):
        if len(args) == 1:
            a, b = 0, args[0]
        elif len(args) == 2:
            a, b = args
        else:
            raise Unsupported("arange with a step and symbolic bounds")
        n = zi(b) - zi(a)
        return cls(_simp_int(z3.If(n > 0, n, z3.IntVal(0))), a, 1)

    @classmethod
    def linspace(cls, start, stop, num, endpoint=True):
        if not endpoint:
            raise Unsupported("linspace(endpoint=False)")
        # element i = start + i * (stop - start) / (num - 1); num == 1 -> [start]
        num_z = zi(num)
        ex = cur()
        step = Sym(z3.If(num_z > 1, (_real(zi(stop)) - _real(zi(start))) / _real(num_z - 1), z3.RealVal(0)))
        return cls(_simp_int(z3.If(num_z > 0, num_z, z3.IntVal(0))), start, step)

    def _affine(self, mul, add):
        return SymRange(self.length, self.start * mul + add, self.step * mul)

    def __add__(self, o):
        return self._affine(1, o)

    __radd__ = __add__

    def __sub__(self, o):
        return self._affine(1, -o)

    def __mul__(self, o):
        return self._affine(o, 0)

    __rmul__ = __mul__

    def __truediv__(self, o):
        return SymRange(self.length, self.start / o, self.step / o)

    def __neg__(self):
        return self._affine(-1, 0)

    def element(self, i):
        return self.start + self.step * i

    # -- anything that is not an affine map of the elements: the length is concretised (one path per feasible length, the caller's
    #    assumptions bound it) and the range becomes an ordinary array of its elements
    def materialize(self):
        import operator

        import numpy as np

        from . import arrays as A

        n = self.length if isinstance(self.length, int) else operator.index(self.length)
        start = self.start
        if is_symbolic(start) and not isinstance(self.length, int):
            try:
                start = operator.index(start)
            except Exception:
                pass
        vals = [start + self.step * i for i in range(max(n, 0))]
        if not any(is_symbolic(v) for v in vals):
            return np.array(vals) if vals else np.zeros(0, dtype=np.int64)
        return A.to_symarray(vals)

    def __pow__(self, o):
        return self.materialize() ** o

    def __getitem__(self, k):
        return self.materialize()[k]

    def __iter__(self):
        return iter(self.materialize())

    def __rsub__(self, o):
        return self._affine(-1, o)

    def __array__(self, dtype=None, copy=None):
        import numpy as np

        return np.asarray(self.materialize(), dtype=dtype)

    def reshape(self, *a, **k):
        return self.materialize().reshape(*a, **k)

    def tolist(self):
        return list(self.materialize())

    @property
    def shape(self):
        return (self.length,)

    def __len__(self):
        return int(self.length)

    def astype(self, *a, **k):
        return self

    def __repr__(self):
        return f"SymRange(len={self.length}, start={self.start}, step={self.step})"


class MeshStub:
    """stack(meshgrid(*ranges, indexing='ij'), axis=0)"""

    _symx_passthrough = True

    def __init__(self, ranges, stacked=False):
        self.ranges = list(ranges)
        self.stacked = stacked

    @property
    def shape(self):
        sh = tuple(r.length for r in self.ranges)
        return (len(self.ranges),) + sh if self.stacked else sh

    def _sampled_result(self, rec):
        out = ShapeOnly(tuple(r.length for r in self.ranges), origin=("map_coordinates", rec))
        out.mesh = self
        return out


class _MeshList(list):
    """result of meshgrid(): list of per-axis coordinate arrays; np.stack turns it into a MeshStub"""

    def __init__(self, ranges):
        super().__init__([("mesh-axis", i) for i in range(len(ranges))])
        self.ranges = ranges


def _same_shape(s1, s2):
    s1, s2 = tuple(s1), tuple(s2)
    if len(s1) != len(s2):
        return False
    for a, b in zip(s1, s2):
        if a is b:
            continue
        za, zb = zi(a), zi(b)
        if z3.eq(za, zb) or z3.eq(z3.simplify(za), z3.simplify(zb)):
            continue
        return False
    return True


class ArbIndex:
    """an arbitrary in-range flat index (argmax of opaque data)"""

    _symx_passthrough = True

    def __init__(self, shape, tag):
        self.shape = tuple(shape)
        self.tag = tag

    def _unravel(self, shape):
        ex = cur()
        if not _same_shape(shape, self.shape):
            raise Unsupported("unravel_index with a shape different from the argmax-ed array")
        out = []
        for a, L in enumerate(self.shape):
            j = z3.Int(ex.fresh_name(f"{self.tag}_ax{a}"))
            ex.assume(z3.And(j >= 0, j < zi(L)))
            out.append(Sym(j))
        return tuple(out)


class ShapeOnly:
    _symx_passthrough = True
    _count = 0

    def __init__(self, shape, origin=None):
        self.shape = tuple(shape)
        self.origin = origin
        self.mesh = None
        ShapeOnly._count += 1
        self.uid = ShapeOnly._count

    @property
    def ndim(self):
        return len(self.shape)

    def __repr__(self):
        return f"ShapeOnly(shape={self.shape})"

    # -- data dependent results -----------------------------------------------------------------
    def _np_argmax(self):
        ex = cur()
        for L in self.shape:
            if not ex.decide(zi(L) >= 1):
                raise ValueError("attempt to get argmax of an empty sequence")
        return ArbIndex(self.shape, f"argmax{self.uid}")

    def argmax(self, axis=None):
        return self._np_argmax()

    def __getitem__(self, key):
        ex = cur()
        if not isinstance(key, tuple):
            key = (key,)
        if all(isinstance(k, slice) for k in key):
            key = key + (slice(None),) * (self.ndim - len(key))
            shape = []
            for sl, size in zip(key, self.shape):
                if sl.step not in (None, 1):
                    raise Unsupported("stepped slice of a ShapeOnly array")
                shape.append(py_slice_len(sl.start, sl.stop, size))
            out = ShapeOnly(shape, origin=("slice", self, key))
            return out
        if len(key) == self.ndim and all(not isinstance(k, slice) for k in key):
            for k, L in zip(key, self.shape):
                kz, Lz = zi(k), zi(L)
                if not ex.decide(z3.And(kz >= -Lz, kz < Lz)):
                    raise IndexError(f"index {k} is out of bounds for axis with size {L}")
            v = z3.Real(ex.fresh_name(f"val{self.uid}"))
            return Sym(v)
        raise Unsupported("mixed index of a ShapeOnly array")

    def astype(self, *a, **k):
        return self

    def mean(self, *a, **k):
        return Sym(z3.Real(cur().fresh_name(f"mean{self.uid}")))

    # element-wise arithmetic keeps the shape; the values stay opaque
    @property
    def real(self):
        return self

    @property
    def imag(self):
        return self

    def conj(self):
        return self

    def _same(self, o):
        if isinstance(o, ShapeOnly) and tuple(map(str, o.shape)) != tuple(map(str, self.shape)):
            raise Unsupported("arithmetic between shape-only arrays of different shapes")
        return self

    __add__ = __radd__ = __sub__ = __rsub__ = __mul__ = __rmul__ = __truediv__ = __rtruediv__ = _same

    def __pow__(self, o):
        return self

    def __neg__(self):
        return self


def py_slice_len(start, stop, size):
    """len(range(*slice(start, stop).indices(size))) with symbolic start/stop/size"""
    n = zi(size)

    def norm(v, default):
        if v is None:
            return default
        z = zi(v)
        z = z3.If(z < 0, z + n, z)
        return z3.If(z < 0, z3.IntVal(0), z3.If(z > n, n, z))

    a = norm(start, z3.IntVal(0))
    b = norm(stop, n)
    return _simp_int(z3.If(b > a, b - a, z3.IntVal(0)))
