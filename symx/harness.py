"""symx.harness -- bookkeeping shared by all checks: query records, reachability twins,
replay gate, known findings, evidence file, exit codes, process-parallel sections.

Exit codes: 0 every claimed query holds (known findings printed), 1 at least one replayed,
unlisted violation, 3 harness error / inconclusive query / non-reproducing counterexample.
"""
from __future__ import annotations

import concurrent.futures as cf
import hashlib
import json
import multiprocessing as mp
import os
import sys
import time
import traceback

import z3

from . import smt
from .core import STATS

VERIF = os.path.dirname(os.path.dirname(os.path.abspath(__file__)))
HARNESS_ERROR = 3


def load_known_findings():
    p = os.path.join(VERIF, "known_findings.json")
    if not os.path.exists(p):
        return []
    with open(p) as f:
        return json.load(f).get("findings", [])


class StopSection(BaseException):
    pass


class SectionTimeout(BaseException):
    pass


def _alarm(seconds):
    import signal

    def handler(signum, frame):
        raise SectionTimeout(f"section exceeded {seconds}s")

    signal.signal(signal.SIGALRM, handler)
    signal.alarm(int(seconds))


class Recorder:
    """Collects query results inside one section (possibly in a worker process)."""

    stop_on_violation = False

    def __init__(self, pid: str, section: str = ""):
        self.pid = pid
        self.section = section
        self.records: list[dict] = []
        self.encoded: set[str] = set()
        self.assumptions: list[str] = []
        self.samples: list = []
        self.paths = 0
        self.extra: dict = {}

    # -- declarations ---------------------------------------------------------------------
    def encodes(self, *names):
        self.encoded.update(names)

    def assume(self, text):
        if text not in self.assumptions:
            self.assumptions.append(text)

    # -- queries --------------------------------------------------------------------------
    def query(self, label, hyps, goal, *, key=None, names=None, replay=None, timeout_ms=20000,
              nonlinear=None, twin=True, info=None, prefer=None):
        """Prove hyps => goal.  `replay(cex) -> (reproduced: bool, detail: dict)` runs the real
        API on the counterexample.  `key` identifies the violation class for known findings."""
        hyps = [h for h in hyps if not z3.is_true(h)]
        v = smt.prove(hyps, goal, label, timeout_ms, nonlinear)
        rec = {
            "label": label,
            "section": self.section,
            "status": v.status,
            "seconds": round(v.seconds, 4),
            "key": key or label,
            "nontrivial": not z3.is_true(z3.simplify(goal)),
        }
        if info:
            rec["info"] = info
        if twin and v.status == "holds" and rec["nontrivial"]:
            r = smt.reachable(hyps, timeout_ms)
            rec["twin"] = r
            if r == "unsat":
                rec["status"] = "vacuous"
        if v.status == "violated":
            model = v.model
            # prefer a small / replay-friendly counterexample when one exists (staged extra constraints)
            preferred = not prefer
            for extra in (prefer or []):
                r2, m2 = smt.check_sat(list(hyps) + list(extra) + [z3.Not(goal)], min(timeout_ms, 5000), nonlinear)
                if r2 == "sat":
                    model = m2
                    preferred = True
                    break
            cex = smt.model_dict(model, names)
            rec["cex"] = smt.jsonable(cex)
            if replay is not None and not os.environ.get("SYMX_MUTANT_RUN"):
                # one violation class (key) is replayed until it reproduces once; failing replays are repeated with further counterexamples
                # of the class while the time spent on it stays within SYMX_REPLAY_BUDGET_S (default 120 s), afterwards the last verdict is shared
                cache = self.__dict__.setdefault("_replay_cache", {})
                ent = cache.setdefault(rec["key"], {"attempts": [], "spent": 0.0})
                hit = next((x for x in ent["attempts"] if x[0]), None)
                if hit is None and ent["attempts"] and ent["spent"] >= float(os.environ.get("SYMX_REPLAY_BUDGET_S", "120")):
                    hit = ent["attempts"][-1]
                if hit is not None:
                    ok, detail = hit[0], {**(hit[1] if isinstance(hit[1], dict) else {"detail": hit[1]}), "replay_shared_with_same_class": True}
                else:
                    t_r = time.time()
                    try:
                        ok, detail = replay(cex)
                    except Exception as e:  # replay machinery failed: harness error
                        ok, detail = None, {"error": repr(e), "trace": traceback.format_exc()[-1500:]}
                    ent["spent"] += time.time() - t_r
                    ent["attempts"].append((ok, detail, preferred))
                rec["reproduced"] = ok
                rec["replay_detail"] = smt.jsonable(detail)
            else:
                rec["reproduced"] = None
        if len(self.samples) < 3 and rec["nontrivial"]:
            try:
                txt = smt.smtlib(hyps, goal)
                self.samples.append({"label": label, "smtlib": txt if len(txt) < 3000 else txt[:3000] + "..."})
            except Exception:
                pass
        self.records.append(rec)
        if self.stop_on_violation and rec["status"] in ("violated", "inconclusive"):
            raise StopSection()
        return v

    def fact(self, label, ok: bool, *, key=None, detail=None, reproduced="auto"):
        """A verdict obtained by exhaustive path exploration rather than one solver query
        (e.g. a structural run).  ok=False is a violation already reproduced by `detail`.
        An exception met while executing the code symbolically ("…/runs") is only a violation if a replay on the
        real library confirms it; without a replay it is a harness error (the engine may simply lack an encoding)."""
        ungated = False
        if reproduced == "auto":
            reproduced = None if (label.endswith("/runs") or (key or "").endswith("raises")) else True
            ungated = reproduced is True  # no replay attached by the section: finish() asks the property's own replay before a VIOLATION is printed
        rec = {
            "label": label,
            "section": self.section,
            "status": "holds" if ok else "violated",
            "seconds": 0.0,
            "key": key or label,
            "nontrivial": True,
            "twin": "sat",
        }
        if not ok:
            rec["cex"] = smt.jsonable(detail or {})
            rec["reproduced"] = reproduced
            rec["replay_detail"] = smt.jsonable(detail or {})
            if ungated:
                rec["ungated"] = True
        self.records.append(rec)
        if self.stop_on_violation and not ok:
            raise StopSection()

    def inconclusive(self, label, why):
        self.records.append({"label": label, "section": self.section, "status": "inconclusive",
                             "seconds": 0.0, "key": label, "nontrivial": True, "why": why})

    def error(self, label, why):
        self.records.append({"label": label, "section": self.section, "status": "error",
                             "seconds": 0.0, "key": label, "nontrivial": True, "why": why})

    def dump(self):
        return {
            "records": self.records,
            "encoded": sorted(self.encoded),
            "assumptions": self.assumptions,
            "samples": self.samples,
            "paths": self.paths,
            "stats": dict(STATS),
            "extra": self.extra,
        }


def _run_section(args):
    pid, name, modname, fname, kwargs = args
    for k in STATS:
        STATS[k] = 0 if isinstance(STATS[k], int) else 0.0
    rec = Recorder(pid, name)
    t0 = time.time()
    try:
        _alarm(int(os.environ.get("SYMX_SECTION_TIMEOUT", "700")))
        mod = __import__(modname, fromlist=[fname])
        getattr(mod, fname)(rec, **kwargs)
        import signal

        signal.alarm(0)
    except SectionTimeout as e:
        rec.inconclusive(f"{name}: timeout", str(e))
    except BaseException as e:  # noqa: BLE001  a crashed section is a harness error, never a verdict
        rec.error(f"{name}: section crashed", f"{type(e).__name__}: {e}\n{traceback.format_exc()[-3000:]}")
    out = rec.dump()
    out["paths"] = STATS["paths"]
    out["name"] = name
    out["wall_s"] = time.time() - t0
    return out


def _run_mutant(args):
    pid, name, modname, fname, kwargs, patches = args
    rec = Recorder(pid, "mutant:" + name)
    rec.stop_on_violation = True
    try:
        _alarm(int(os.environ.get("SYMX_MUTANT_TIMEOUT", "300")))
        mod = __import__(modname, fromlist=[fname])
        getattr(mod, fname)(rec, patches=patches, **kwargs)
    except StopSection:
        pass
    except SectionTimeout as e:
        return name, "timeout", str(e)
    except KeyError as e:
        return name, "stale", f"patch target not found: {e}"
    except BaseException as e:  # noqa: BLE001
        return name, "crashed", f"{type(e).__name__}: {e}"
    import signal

    signal.alarm(0)
    bad = [r for r in rec.records if r["status"] == "violated"]
    err = [r for r in rec.records if r["status"] in ("error",)]
    inc = [r for r in rec.records if r["status"] == "inconclusive"]
    if bad:
        return name, "killed", bad[0]["label"]
    if inc:
        return name, "killed-by-inconclusive", inc[0]["label"] + " (the check would exit 3, not 0)"
    if err:
        return name, "killed-by-error", err[0]["label"] + ": " + str(err[0].get("why"))[:200]
    return name, "survived", f"{len(rec.records)} queries all hold"


def run_mutants(pid, mutants, procs=None):
    """mutants: list of (name, module, function, kwargs, patches).  The in-memory patched source must flip
    at least one query of the given section.  (Replays run against the unpatched /repo, so `reproduced`
    is expected to be False for mutants; only the solver verdict is used here.)"""
    procs = procs or min(16, os.cpu_count() or 4)
    jobs = [(pid, n, m, f, kw, p) for (n, m, f, kw, p) in mutants]
    out = {}
    ctx = mp.get_context("fork")
    with cf.ProcessPoolExecutor(max_workers=procs, mp_context=ctx) as ex:
        for name, status, info in ex.map(_run_mutant, jobs):
            out[name] = {"status": status, "info": info}
    return out


def run_check(pid: str, tier: str, sections, *, explanation: str, bounds: dict, trusted_base, level="other",
              procs=None, outside=None, mutants=None):
    """sections: list of (name, module, function, kwargs).  Runs them in worker processes,
    merges, applies known findings, writes evidence, prints VIOLATION lines, returns exit code."""
    t0 = time.time()
    seed = int(os.environ.get("VERIF_SEED", "0") or 0)
    procs = procs or min(16, os.cpu_count() or 4)
    jobs = [(pid, n, m, f, kw) for (n, m, f, kw) in sections]
    results = []
    if procs == 1 or len(jobs) == 1:
        results = [_run_section(j) for j in jobs]
    else:
        ctx = mp.get_context("fork")
        with cf.ProcessPoolExecutor(max_workers=procs, mp_context=ctx) as ex:
            futs = {ex.submit(_run_section, j): j for j in jobs}
            for fu in cf.as_completed(futs):
                j = futs[fu]
                try:
                    results.append(fu.result())
                except BaseException as e:  # noqa: BLE001
                    results.append({"records": [{"label": j[1] + ": worker died", "section": j[1], "status": "error",
                                                 "seconds": 0, "key": j[1], "nontrivial": True, "why": repr(e)}],
                                    "encoded": [], "assumptions": [], "samples": [], "paths": 0,
                                    "stats": {}, "name": j[1], "wall_s": 0, "extra": {}})
    results.sort(key=lambda r: [s[0] for s in sections].index(r["name"]))
    mres = None
    if mutants:
        os.environ["SYMX_MUTANT_RUN"] = "1"
        mres = run_mutants(pid, mutants, procs)
        os.environ.pop("SYMX_MUTANT_RUN", None)
    return finish(pid, tier, seed, results, explanation, bounds, trusted_base, level, t0, outside, mres)


def _gate_structural_facts(pid, violated):
    """A structural fact that failed without a replay of its own (fact(..) called without reproduced=) is confirmed with the replay the property registers for
    that class of violation (checks.<id>.replay, the function behind `./check <ID> --replay <file>`; the owner is read from the key prefix, so delegated
    sections are replayed by the check they come from).  Not reproduced -> harness error (exit 3), never a VIOLATION line."""
    import contextlib
    import importlib
    import io
    import re

    if os.environ.get("SYMX_MUTANT_RUN"):
        return
    cache = {}
    for r in violated:
        if not r.get("ungated") or r.get("reproduced") is not True:
            continue
        key = r["key"]
        if key not in cache:
            m = re.match(r"(C\d\d)/", key)
            owner = (m.group(1) if m else pid).lower()
            verdict = True
            try:
                mod = importlib.import_module(f"checks.{owner}")
                buf = io.StringIO()
                with contextlib.redirect_stdout(buf):
                    rc = mod.replay({"key": key, "label": r["label"], "cex": r.get("cex"), "replay_detail": r.get("replay_detail")})
                verdict = True if rc == 1 else False
                cache[key + "#out"] = buf.getvalue()[-600:]
                if not verdict:
                    # any other real-library oracle of the same property that shows a misbehaviour confirms that the tree is defective
                    for fn in getattr(mod, "ALL_REPLAYS", []):
                        try:
                            with contextlib.redirect_stdout(buf):
                                ok2, det2 = fn({})
                        except Exception:  # noqa: BLE001
                            continue
                        if ok2 is True or ok2 == 1:
                            verdict = True
                            cache[key + "#out"] = str(det2)[:600]
                            break
            except BaseException as e:  # noqa: BLE001  the replay machinery itself failed: undecided
                verdict = None
                cache[key + "#out"] = f"replay raised {type(e).__name__}: {e}"
            cache[key] = verdict
        r["reproduced"] = cache[key]
        if cache[key] is not True:
            r["replay_detail"] = {"fact": r.get("replay_detail"), "property_replay": cache.get(key + "#out")}


def finish(pid, tier, seed, results, explanation, bounds, trusted_base, level, t0, outside=None, mres=None):
    known = [k for k in load_known_findings() if k.get("property") == pid]
    records = [r for res in results for r in res["records"]]
    encoded = sorted({e for res in results for e in res["encoded"]})
    assumptions = []
    for res in results:
        for a in res["assumptions"]:
            if a not in assumptions:
                assumptions.append(a)
    samples = [s for res in results for s in res["samples"]][:6]
    stats = {}
    for res in results:
        for k, v in res.get("stats", {}).items():
            stats[k] = stats.get(k, 0) + v

    n_obl = len(records)
    holds = [r for r in records if r["status"] == "holds"]
    violated = [r for r in records if r["status"] == "violated"]
    inconcl = [r for r in records if r["status"] in ("inconclusive", "vacuous")]
    errors = [r for r in records if r["status"] == "error"]

    exit_code = 0
    lines = []
    new_violations = []
    known_hits = []
    _gate_structural_facts(pid, violated)
    confirmed_keys = {r["key"] for r in violated if r.get("reproduced") is True}
    for r in violated:
        k = next((kf for kf in known if kf.get("status", "open") == "open" and kf["key"] == r["key"]), None)
        if r.get("reproduced") is not True and r["key"] in confirmed_keys:
            # same violation class already confirmed on the real code by another counterexample
            r = {**r, "unconfirmed_duplicate": True}
        elif r.get("reproduced") is False:
            errors.append({**r, "why": "counterexample did not reproduce on the real code (encoding or stub wrong)"})
            continue
        elif r.get("reproduced") is None and "replay_detail" in r:
            errors.append({**r, "why": "replay machinery could not run this counterexample: " + str(r.get("replay_detail"))[:500]})
            continue
        if k is not None:
            known_hits.append((k, r))
        else:
            new_violations.append(r)

    seen_known = set()
    for k, r in known_hits:
        if k["key"] in seen_known:
            continue
        seen_known.add(k["key"])
        lines.append(f"KNOWN-FINDING: property={pid} {k['what']}")

    rdir = os.path.join(VERIF, "replays", pid)
    if os.path.isdir(rdir):
        for fn in os.listdir(rdir):
            if fn.endswith(".json"):
                os.unlink(os.path.join(rdir, fn))
    by_key = {}
    for r in new_violations:
        by_key.setdefault(r["key"], []).append(r)
    for key, rs in by_key.items():
        rs = sorted(rs, key=lambda x: 0 if x.get("reproduced") is True else 1)
        r = rs[0]
        os.makedirs(rdir, exist_ok=True)
        h = hashlib.sha256(key.encode()).hexdigest()[:12]
        path = os.path.join(rdir, f"{h}.json")
        with open(path, "w") as f:
            json.dump({"property": pid, "key": r["key"], "label": r["label"], "section": r["section"],
                       "cex": r.get("cex"), "replay_detail": r.get("replay_detail"), "info": r.get("info"),
                       "same_key_violations": len(rs), "other_labels": [x["label"] for x in rs[1:6]]}, f, indent=1, default=str)
        lines.append(f"VIOLATION property={pid} replay={path}")
        lines.append(f"  key={key} ({len(rs)} violated queries) first: {r['label']}: cex={json.dumps(r.get('cex'), default=str)[:300]}")
        lines.append(f"  observed on the real code: {json.dumps(r.get('replay_detail'), default=str)[:300]}")
        exit_code = 1
    if exit_code == 0 and (errors or inconcl):
        exit_code = HARNESS_ERROR
    for r in errors[:12]:
        lines.append(f"HARNESS-ERROR {pid} {r['label']}: {str(r.get('why'))[:1500]}")
        if os.environ.get("SYMX_DEBUG") and r.get("cex") is not None:
            lines.append(f"    detail: {str(r.get('cex'))[:1200]}")
    if len(errors) > 12:
        lines.append(f"HARNESS-ERROR {pid} ... and {len(errors) - 12} more")
    for r in inconcl[:12]:
        lines.append(f"INCONCLUSIVE {pid} {r['label']}: {r['status']} {r.get('why', '')}")
    if len(inconcl) > 12:
        lines.append(f"INCONCLUSIVE {pid} ... and {len(inconcl) - 12} more")

    nontrivial_labels = {r["label"] for r in records if r.get("nontrivial") and r.get("twin", "sat") != "unsat"}
    wall = time.time() - t0
    evidence = {
        "property_id": pid,
        "tier": tier if tier in ("quick", "thorough") else "quick",
        "seed": seed,
        "level": level,
        "coverage": {
            "explanation": explanation,
            "evaluations": max(1, int(stats.get("paths", 0)) + n_obl),
            "distinct_nontrivial": len(nontrivial_labels),
            "rule": "one case = one solver query (negated obligation over symbolic inputs) or one explored path of the real code; "
                    "non-trivial = the obligation does not simplify to true syntactically and its reachability twin (hypotheses alone) is satisfiable; "
                    "distinct = distinct query label (function, bound instance, obligation)",
            "samples": samples or [{"label": r["label"], "status": r["status"]} for r in records[:3]],
            "obligations": n_obl,
            "discharged": len(holds),
            "violated_known": len(known_hits),
            "violated_new": len(new_violations),
            "inconclusive": len(inconcl),
            "harness_errors": len(errors),
            "paths_explored": int(stats.get("paths", 0)),
            "solver_calls": int(stats.get("solver_calls", 0)),
            "solver_seconds": round(float(stats.get("solver_s", 0.0)), 3),
            "checker_cmd": f"./check {pid} --tier {tier}",
            "trusted_base": list(trusted_base),
            "functions_encoded": encoded,
            "bounds": bounds,
            "outside_the_claim": outside or [],
            "sections": [{"name": res["name"], "queries": len(res["records"]), "wall_s": round(res["wall_s"], 2),
                          **({"extra": res["extra"]} if res.get("extra") else {})} for res in results],
            "exhaustive": False,
            "known_findings_reported": sorted(seen_known),
            **({"mutants": mres, "mutants_killed": sum(1 for v in mres.values() if v["status"].startswith("killed")),
                "mutants_total": len(mres)} if mres is not None else {}),
        },
        "assumptions": assumptions,
        "wall_s": round(wall, 2),
        "violations": len(new_violations),
    }
    os.makedirs(os.path.join(VERIF, "evidence"), exist_ok=True)
    with open(os.path.join(VERIF, "evidence", f"{pid}.json"), "w") as f:
        json.dump(evidence, f, indent=1, default=str)
    for ln in lines:
        print(ln)
    if mres is not None:
        for k, v in mres.items():
            if not v["status"].startswith("killed"):
                print(f"MUTANT-{v['status'].upper()} {pid} {k}: {v['info']}")
        print(f"[{pid}] self-test mutants killed {sum(1 for v in mres.values() if v['status'].startswith('killed'))}/{len(mres)}")
    print(f"[{pid}] tier={tier} queries={n_obl} holds={len(holds)} known={len(known_hits)} new={len(new_violations)} "
          f"inconclusive={len(inconcl)} errors={len(errors)} paths={int(stats.get('paths', 0))} "
          f"solver_s={stats.get('solver_s', 0.0):.1f} wall={wall:.1f}s exit={exit_code}")
    sys.stdout.flush()
    return exit_code
