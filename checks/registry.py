"""Single source of truth for MANIFEST.json (tools/gen_manifest.py renders it)."""

TECH = "bounded symbolic execution of the real acryo source (z3 proxies + path forking); z3 decides each obligation over all values inside the stated bounds; counterexamples replayed on the unmodified API"

CLAIMED = {
    "C01": {
        "text": "Write-back of alignment results decided for symbolic position, scale, shift, alignment rotation (unit quaternion) and score with exact rational molecule orientations (R30): the sampling grid of the output pose equals the input grid composed with the transform AlignmentResult.affine_matrix denotes "
                "(p' = p + scale R_m s, R' = R_m R_q) for single, multi-template and grouped write-back; input untouched; features = (round(s*scale,2), rotvec, score); max_shifts/scale, pos/scale and quaternions reach the model.",
        "note": "Trusted: z3 (nlsat), symx, SymRotation quaternion/rotvec contract (linearity and orthogonality obligations discharged per path), C02's sampling rule, real polars. NOT covered: that the FFT correlation search finds the true displacement/rotation on real images (C04/C06 cover its conventions); BatchLoader write-back order (C03).",
        "ref": "DESIGN.md §4 C01",
    },
    "C02": {
        "text": "Solver-decided over unbounded integers/reals: slice/pad arithmetic, out-of-bound <=> no overlap, and the sampling rule "
                "pos/scale + R(o-(shape-1)/2) for every explored path of the real construct_loading_tasks (tomogram size, position, scale, "
                "box shape and rotation matrix symbolic; orders 0/1/3; corner_safe with exact rational orientations). Bounded by the listed shape/orientation sets for corner_safe only. Also: loading leaves the molecule positions untouched (same loader used twice), unrotated molecules on concrete boxes (shortcuts that skip interpolation), the interpolation support is [0, n-1] for every order (order 0 included: found the defect fixed in 611acbc), the tasks of a batch computed in ONE dask graph.",
        "note": "Trusted: z3; the symx engine; the NdiStub contract of scipy.ndimage.affine_transform (out[o]=Interp(input, M(o,1)); conformance-tested every run); "
                "dask.pad(mode='mean') fill contract; exact-real model of float32 arithmetic. Not covered: cubic-spline edge accuracy, dask chunking.",
        "ref": "DESIGN.md §4 C02",
    },
    "C15": {
        "text": "bin_image proved to be the block sum voxel-by-voxel on arrays of symbolic voxels (shapes <= 24/40 voxels, b<=3) and shape-consistent for every image side (symbolic, b<=6); "
                "SubtomogramLoader.binning proved to keep the sampled physical region: b*A_bin(k)+(b-1)/2 == A_orig(b*k+(b-1)/2) for symbolic position, scale, box shape, rotation matrix, b in 1..6; scale, image and copy semantics checked.",
        "note": "Trusted: z3, symx, C02's affine_transform contract, real numpy reshape/sum on object arrays. BatchLoader.binning covered the same way (incl. compute=True). Not covered: numerical equality of lazy vs eager dask images, boundary molecules (C02).",
        "ref": "DESIGN.md §4 C15",
    },
    "C16": {
        "text": "Both copies of nd_butterworth_weight executed with a symbolic cut-off: every FFT bin equals 1/(1+(|f|^2/c^2)^order) (rational-function identity decided by z3), DC=1, k<->-k symmetry, half-spectrum = slice of the full one; "
                "lowpass_filter/_ft (numpy- and backend-level) executed on symbolic images over an opaque linear FFT: identity iff c<=0 or c>=sqrt(3)/2, input transformed once, per-bin weighting, output shape = input shape.",
        "note": "Trusted: z3, symx, FFTStub (scipy.fft shape rules conformance-tested on 216 shapes; DFT linearity), exact-real model of float32. Bounds: shapes from {1..6}^3 (10 quick / 216 thorough), orders 1..3, filters on <=36-voxel images.",
        "ref": "DESIGN.md §4 C16",
    },
    "C06": {
        "text": "Candidate ordering (rotation-major, template-minor) established by running the real candidate builder with recording stubs (T,K<=3/4); align()/fit() run with symbolic scores: on every path the winner is the first arg-max, shift/score pass through, the reported quaternion is that of rotation winner//T; "
                "index arithmetic decided with a symbolic winner for all T,K<=8/24; loader and loader-group label columns equal winner%T (list and mapping inputs); normalize_rotations shapes/content.",
        "note": "Trusted: z3, symx, SymRotation quaternion algebra, real dask.delayed (synchronous), real polars with Object columns. Not covered: which candidate scores best on real data; uint8 wrap-around beyond 256 candidates.",
        "ref": "DESIGN.md §4 C06",
    },
    "C03": {
        "text": "Loaders over shape-only tomograms and molecules with symbolic position/orientation tags, on the real polars and the real dask.delayed: the k-th loading task is identified (tomogram read + molecule whose position z3 proves equal to the sampled centre) as molecule k on the tomogram registered for its id - for single loaders, batches with every image-id ordering of length 2-4, groups and derived loaders; "
                "per-molecule kwargs k and apply() row k belong to subtomogram k; derived loaders hold exactly the selected molecules; groups partition; derived groups are re-iterable; sources untouched. apply(f_0..f_k-1) on loaders and groups: cell (i, j) = f_j of the sub-tomogram of molecule i, also for square tables (k = n) and k = 1; derived batches do not share their image registry with the parent; all tasks of a loader computed in one real dask graph. Tomogram ids registered in several portions plus tomograms without molecules; groupby on tables that carry a '.index' feature.",
        "note": "Trusted: z3, symx, real polars (Object columns), real dask.delayed (synchronous), C02's affine_transform contract. Bounds: 3-4 molecules per loader well inside 200^3 tomograms, 2-3 tomograms, operation sequences <= 2. Not covered: classification write-back (C18 n/a; same task order), polars internals.",
        "ref": "DESIGN.md §4 C03",
    },
    "C05": {
        "text": "Every sub-volume is covered by quantifying over arg-max outcomes: the real sub-pixel routines of all four models run with a numpy whose argmax over data is an arbitrary in-range index and with opaque interpolation values. "
                "z3 decides |shift_i| <= max_shifts_i on every path; a path ending in an exception violates 'never fails'. Refinement stage: max_shifts any real >= 0, symbolic landscape sizes; whole routines: boxes (4,4,4),(5,6,7)[,(8,8,8),(7,4,9)], max_shifts symbolic in [0,2*box) on one axis.",
        "note": "Trusted: z3, symx, BlindNP (argmax -> arbitrary index), HybridNdi (map_coordinates on a symbolic mesh -> opaque array of the mesh's shape), _upsampled_dft output shape (conformance-tested), real numpy/scipy for concrete landscape data, exact reals for float32. Division safety: ZNCC/NCC/FSC models executed on a sub-volume c*1 (c symbolic, zeros included) with symbolic template and mask; every division and square root recorded on the way is a query (divisor != 0, radicand >= 0) for align((0,0,0)) and landscape(m), m in {(0,0,0),(0,0,1),(0,1,1)}, boxes (1,2,2)/(1,1,2). Not covered: NaN from compiled kernels on larger boxes, PCC division safety (numeric section only).",
        "ref": "DESIGN.md §4 C05",
    },
    "C11": {
        "text": "Molecules methods executed on symbolic unit quaternions / positions / shifts: x,y,z = images of (0,0,1),(0,1,0),(1,0,0), orthonormal, z = cross_zyx(x,y); world rotations compose on the left and keep positions; internal rotations compose on the right; translate_internal adds R.s; closed forms of linear_transform and of inv=True (exact inverse); copy=True never touches the original; "
                "affine_matrix and local_coordinates = pos(/scale) + R(k - centre); quat/matrix/Euler representation round trips (Euler as an uninterpreted inverse pair + translate_euler involution on all 54 sequences). All polynomial identities modulo |q|=1, decided by nlsat. Batches: (N,3) per-molecule rotation vectors and shifts move row i by its own vector (N = 2).",
        "note": "Trusted: z3, symx, SymRotation contract. Bounds: axes/coords with an arbitrary unit quaternion; rotation-vector operations with 4 (quick) / 30 exact rational molecule orientations. Rotation from two axes: _get_align_rotator executed on batches mixing a symbolic generic unit vector with anti-parallel and parallel rows (sqrt/arctan2 uninterpreted, from_rotvec recorded row-wise): anti-parallel rows get a half turn about an orthogonal axis, parallel rows the identity, "
                "and for generic rows rotvec/theta is a unit axis about which Rodrigues' rotation by the angle with (sin,cos)=(|src x dst|, src.dst) maps src to dst; axes_to_rotator on axis-aligned frames with symbolic signs (1 and 2 rows) returns the given z and y. "
                "NOT covered: axes_to_rotator as a whole on generic frames (composition of two symbolic axis-angle rotations), non-unit / non-orthogonal input axes.",
        "ref": "DESIGN.md §4 C11",
    },
    "C12": {
        "text": "Molecule tables with distinct symbolic tags (z3 constants in polars Object columns) for position and orientation plus a tag feature are pushed through all 26 parameterised table operations and all ordered pairs of them on the REAL polars: every output row carries one tag in position, orientation and features; "
                "the rows are those an independent list oracle selects (order per contract); inputs untouched; group_by/cutby partition with matching keys; symbolic integer arguments of subset/head/tail forked by the explorer; listed inconsistent inputs raise; a table with features joined with a table without (concat/concat_with/append, both orders, empty and non-empty) is either rejected with the receiver unchanged or consistent with nulls.",
        "note": "Trusted: z3, symx, the real polars (Object-column row semantics), SymRotation rotvec<->quat pair. Bounds: 0/1/3-row tables (5 after concat), single operations and ordered pairs (no triples), concrete key columns (2/4 orderings incl. ties). The solver's part is small here (tag equalities and integer case splits); the value is the exhaustive path enumeration on the real code.",
        "ref": "DESIGN.md §4 C12",
    },
    "C14": {
        "text": "Placement rule decided for symbolic position, scale, template sides (both parities) and rotation matrix: tomogram voxel t of the pasted fragment reads template coordinate (shape-1)/2 + R^-1(t - pos/scale); "
                "_prep_slices decided over unbounded integers for every clipping case (pairing t<->t-start, exactly the overlap kept, non-overlapping fragments dropped); simulate/simulate_2d executed on a recording canvas: one += per molecule from its component's template at its own slice, 2-D = z-sum.",
        "note": "Trusted: z3, symx, C02's affine_transform contract, real dask.delayed. Not covered: interpolation accuracy off-grid; simulate_projection/tilt series/colour.",
        "ref": "DESIGN.md §4 C14",
    },
    "C07": {
        "text": "ncc()/zncc() and the ZNCC/NCC alignment models executed on tiny boxes with all voxels, mask values, gain and offset symbolic over an exact-DFT / convolution-theorem FFT stub, square roots opaque so that every score is N/Sqrt(R): z3 proves N and R equal (up to a positive constant) to covariance and variance product of the masked images (Pearson r / uncentred NCC), N*N=R for identical inputs, gain/offset scaling laws, "
                "and - for ZNCC - that the zero-range landscape centre and the zero-range alignment score are the same number as score(); the mask->low-pass->wedge argument flow is the same in score, landscape and align.",
        "note": "Trusted: z3, symx, FFTStub (exact DFT for lengths 1,2,4; convolution theorem), NdiStub (interpolation exact at nodes), Cauchy-Schwarz as a lemma for [-1,1] (solver-checked up to 3 voxels). Bounds: boxes (1,1,2),(1,2,2),(1,1,3) quick, up to (2,2,3)/(1,1,4) thorough. NOT covered: FSC score/landscape agreement, 'landscape maximum at the reported displacement' (index conventions are C04), larger boxes, float32 error.",
        "ref": "DESIGN.md §4 C07",
    },
    "C08": {
        "text": "All three mask implementations executed with the tilt pair symbolic on the unit circle (-90<=min<max<=90) and exact rational orientations: for every Fourier bin z3 (nlsat) decides kept <=> the physical frequency (FFT-ordered index / box length) mapped by the orientation lies between the two tilt planes; "
                "plus DC kept, k<->-k symmetry off the Nyquist planes, no-wedge = ones, dual-axis = union, and tilt=(a,b) / model object / tilt_range=(a,b) / None dispatch of TomographyInput.",
        "note": "Trusted: z3, symx, SymRotation, unit-circle angle algebra. Bounds: box shapes from {1..4}^3 (8 quick) / {1..5}^3 (125 thorough), 6 / 30 exact rational orientations. Assumption A-C08: sign convention of a positive tilt angle as used by all three implementations. Symmetry is not required on the Nyquist plane of even axes (the geometric rule itself is asymmetric there).",
        "ref": "DESIGN.md §4 C08",
    },
    "C09": {
        "text": "average/average_split/LoaderGroup.average(_split) executed on a loader whose i-th subtomogram is a one-voxel symbolic image, dask.array replaced by a stack/mean/compute stub and the random generator by a stub with symbolic picks: the explorer covers every possible split; z3 proves average = arithmetic mean, the two halves are the means of a partition into two non-empty sets (N>=2), their count-weighted mean is the full average, same seed => same split, n_set draws successive picks from one stream, group averages use each group's own molecules. Loader reuse: loading does not modify the molecules (C02's fact) and MockLoader never writes into the caller's template, so an average is the mean of what a second load returns. The stack stand-in has chunk layouts (one chunk, (n-1,1), (1,n-1)): the mean does not depend on it; continuous random draws of a splitter are symbols in [0,1).",
        "note": "Trusted: z3, symx, DaskArrayStub (numpy meaning of stack/mean/compute), RngStub (choice returns elements of its argument, repetition allowed; stream determined by the seed), real polars. Bounds: N<=5 (average), N in 2..4/2..6 (splits), n_set<=2. NOT covered (stated): 'however the tomogram is chunked' - dask's chunked reductions are environment; BatchLoader.average shares LoaderBase.average (task order is C03).",
        "ref": "DESIGN.md §4 C09",
    },
    "C10": {
        "text": "(i) lazily declared shapes: the shape construct_landscape declares (real code on stand-ins) is proved equal to the shape the real model.landscape() returns for ZNCC/NCC/PCC/FSC with and without up-sampling, max_shifts symbolic on one axis of a 6^3 box; loading tasks declare the requested box. "
                "(ii) thread interleavings of the shared TemplateMaskCache: get() is translated from CPython bytecode to shared-dict steps and all schedules of 2 and 3 threads (switch between any two bytecodes) are bounded-model-checked by z3 (QF_BV): no thread raises, every thread gets the stored value; counterexample schedules are replayed with an opcode-level deterministic scheduler. "
                "(iii) any other state shared on the model: the source of the model and tilt-model classes is scanned for methods (other than __init__) that assign attributes of self; each such method is executed symbolically from its AST for two tasks "
                "(values of an uninterpreted sort, calls as uninterpreted functions, every load/store of a written attribute an atomic step), all interleavings are explored and z3 decides whether some interleaving returns results that no sequential order returns; "
                "a violating schedule is replayed on the real model with an attribute-level scheduler. On the pinned tree no such method exists besides the cache. (iv) bin_image on real dask arrays of symbolic voxels gives the same block sums for irregular chunkings (C15's section). "
                "(v) task k of construct_loading_tasks samples around molecule k for a tomogram stub with a dask chunk layout (2-3 chunks per axis) and symbolic molecule positions. "
                "(vi) delayed tasks that share a random generator: the real MockLoader tilt-series simulation runs on a recording dask shim with arrays as terms of an uninterpreted sort and the k-th draw of a generator as draw(g,k); "
                "for every execution order of the sibling projection tasks z3 decides equality of the result with the reference order; replay with fresh graphs under the synchronous and threaded schedulers. (vii) module-level memoised arrays (lru_cache active): masks / Butterworth weights do not depend on the calls made before (C08's and C16's cache-history sections). (viii) AST scan of every acryo module for in-place writes to objects handed out by lru_cache functions, with an interleaving query for two tasks and a replay under the synchronous vs threaded scheduler. (ix) numpy and dask input of the same element type are interpolated in the same element type.",
        "note": "Trusted: z3, symx, the CPython dict model in checks/c10_cache.py, HybridNdi, real dask (synchronous) for (iv). Assumptions of (iii): called functions are pure and return objects, attribute loads/stores are atomic, np.array/asarray/copy preserve the value, two tasks optionally preceded by one completed call; "
                "methods with loops/try/with are reported as inconclusive. (vi): every array operation is an uninterpreted function, each task runs once, a delayed body that needs concrete data and takes no generator is an uninterpreted function of its arguments. "
                "NOT covered (stated): equality of results across dask schedulers / worker counts for the loaders as a whole - dask's own execution semantics are not encoded; shared mutable arrays written inside tasks.",
        "ref": "DESIGN.md §4 C10",
    },
    "C13": {
        "text": "PARTIAL (the serialised bytes are not decided): tables with symbolic positions and orientations (z3 constants in Object columns of the real polars) go through the real to_dataframe / from_dataframe: layout z, y, x, zvec, yvec, xvec followed by the features, "
                "row r = molecule r, exact inverse (also with renamed coordinate columns; 0, 1, 3 molecules; with and without features; caller's column lists and the source untouched). The real to_csv / to_parquet / to_file / from_csv / from_parquet / from_file run over an in-memory "
                "stand-in for the polars writers and readers: what is written is exactly that frame with the caller's float_precision / compression options, what is read is handed to from_dataframe with the caller's column names and reader options, "
                "and to_file / from_file choose the same format for the same suffix (10 suffix classes incl. upper case and double suffixes).",
        "note": "Assumed, NOT decided: polars' compiled CSV / Parquet serialisers (decimal formatting to float_precision, dtype inference, zstd, nulls/booleans in CSV) - no source or IR to execute; the writer/reader stand-in has the contract 'same format -> the written frame, other format -> failure'. "
                "scipy's as_rotvec/from_rotvec near rotation angles 0 and pi and the float32 rounding of the rotation vector are outside (SymRotation inverse pair). The solver's part is small (tag equalities, the rotation-vector inverse pair); the value is the execution of the real code on tagged tables. "
                "The replay oracle round-trips real files (csv, pq, parquet, txt, no suffix; ints, floats, strings, booleans; float_precision=2; renamed columns) in a temporary directory.",
        "ref": "DESIGN.md §5 / §11.8 (not-applicable at design time; the encodable part was built in the build round)",
    },
    "C18": {
        "text": "PARTIAL (the numerical kernels are not decided): the Python code acryo wraps around the SVD and k-means kernels is executed on symbolic data. (A) real DaskPCA with da.linalg.svd as a contract stub: the matrix handed to the SVD is the column-centred data; "
                "mean_, components_, singular_values_, explained_variance_(ratio_) are the column mean and the leading n of what the SVD returned; transform(Y) = (Y - mean_) Vt[:n]^T; inverse_transform; and, with the SVD contract instantiated in a solver-checked ring identity, "
                "the projections of the training data and fit_transform equal U[:, :n] S[:n] (those of an exact SVD of the centred data). (B) real PcaClassifier with recording PCA / k-means stand-ins: the fitted and transformed rows are image_i * mask flattened in C order, "
                "row i <-> image i; labels, split_clusters, predict, get_transform(labels=), transform(mask=False), get_bases follow that order. (C) real LoaderBase.classify on the stand-in loader of C03: stack row i = masked_difference(sub-tomogram of molecule i, quaternion i) of "
                "ZNCC(template, mask, cutoff, tilt); classifier gets (stack, model.mask, n_components, n_clusters, seed); one label per molecule in molecule order in a new column; positions, orientations, other features and the source loader untouched. "
                "(D) real masked_difference = Re ifftn((F(image*mask) - F(template*mask)) * wedge) voxel by voxel over an exact DFT with symbolic wedge weights.",
        "note": "Trusted / assumed: the SVD CONTRACT (A = U diag(S) Vt, Vt Vt^T = I) - that LAPACK and dask's tall-skinny QR satisfy it, for every chunking, is NOT decided (compiled kernels behind FFI, no source/IR to execute); k-means ('clearly separated groups get distinct clusters') is NOT decided; "
                "the randomized solver the real code selects for stacks with more than 500 features per image is outside; component signs are outside. Bounds: N x F up to 4x3 / 3x4, n_components <= 3, 3-8 images of <= 6 voxels, 4 molecules. "
                "The replay oracle compares the installed library with numpy's exact SVD on small stacks (several chunkings) and classifies two planted groups.",
        "ref": "DESIGN.md §5 / §11.8 (C18 was not-applicable at design time; the encodable part was built in the build round)",
    },
    "C17": {
        "text": "fourier_shell_correlation executed on image pairs with symbolic voxels over an exact DFT (box sides in {1,2,4}), square roots opaque: every returned value is N/Sqrt(R) with N = Re sum F1 conj(F2) and R = sum|F1|^2 sum|F2|^2 over exactly the bins of shell floor(|f|/dfreq) (shells and DFT recomputed independently with rational arithmetic), symmetric in the inputs, N'=gN / R'=g^2R under a positive gain, N*N=R and N=power for identical inputs, freq=(i+1/2)dfreq. "
                "Shell labels of the FSC alignment score compared on all 125 shapes in {1..5}^3. Loader-level FSC executed on the C09 stand-in loader: the correlated images are the two zero-normalised split halves times the mask, one column per split, explicit/default dfreq. Odd sides 3 and 6 are covered with a symbolic sqrt(3) (hypothesis sqrt3^2 = 3): boxes (1,1,3), (1,2,3), (1,3,3); numerator and radicand are compared up to one common positive factor; a guarded division must have the guard 'radicand > 0' (no amplitude-dependent threshold).",
        "note": "Trusted: z3 (ring identities), symx, FFTStub exact DFT, NdiStub.sum_labels, Cauchy-Schwarz per shell as a lemma for [-1,1], C09's dask/rng stubs. Bounds: boxes with sides in {1,2,4}, <= 8 voxels quick / <= 32 thorough, (box, dfreq) pairs without empty shells. Not covered: other box sides, uint16 label overflow for tiny dfreq, the numeric value of the backend fsc() score.",
        "ref": "DESIGN.md §4 C17",
    },
    "C04": {
        "text": "Convention chain landscape entry <-> lag <-> returned shift, for ZNCC, NCC, PCC and FSC. (1) The real subpixel_zncc/ncc (up to their upsample() call) and *_landscape_with_crop are executed on images of symbolic voxels over a "
                "convolution-theorem FFT stub: z3 proves that numerator and radicand of every landscape entry are those of the (zero-)normalised correlation between the template and the window of the padded sub-volume at lag "
                "x-centre (uncropped) / r-int(m) (cropped); pcc_landscape and fsc_landscape likewise over an exact DFT (sides 1,2,4), and for any side through position-code inverse FFT / recorded phase ramps. "
                "(2) The real subpixel_zncc/ncc/fsc/pcc are executed with symbolic max_shifts and a data-blind arg-max (every coarse and refined peak): the returned shift equals the lag of the landscape position sampled at the refined maximum, "
                "the coarse peak is a node of the refinement mesh/window, and the window is exactly the set of 1/20-px nodes near the coarse peak whose lag lies in [-m, m]. (3) _upsampled_dft's kernel phase is -2pi(n-off)k'/(N up) axis by axis. "
                "(4) The models hand (sub-volume*mask, template*mask) to the backend in this order, return its shift and score unchanged with the identity quaternion, and fit() resamples at o+shift.",
        "note": "Trusted: z3, symx, FFTStub (convolution theorem, exact DFT), HybridNdi (opaque interpolation), BlindNP (arbitrary arg-max), Cauchy-Schwarz (a perfect copy at lag d maximises the normalised correlation at d) and the Fourier shift theorem beyond sides 1,2,4 as lemmas. "
                "Bounds: symbolic-voxel boxes <= 6 voxels quick / <= 12 thorough; decode boxes up to 9 per side with max_shifts symbolic on one axis in [0, 2*side); float32 mesh constants read as exact k/20 fractions. "
                "NOT covered: the numeric accuracy figures of the statement (0.1 px / 0.5 px) - they depend on floating-point FFT, cubic-spline interpolation and image content; a regression that only degrades accuracy without changing an index, sign, window or argument order is not detected.",
        "ref": "DESIGN.md §4 C04",
    },
    "C19": {
        "text": "The real pipeline classes executed on images of symbolic voxels with uninterpreted voxel-wise converters and scale-dependent providers: +,-,*,/ between pipelines and with a scalar on either side, unary minus and comparison give the voxel-wise expression; compose/@ is function application in order and associative, with_scale partialises, provider/converter_function curry. "
                "Unit handling executed with symbolic scale and parameters and recorded scipy.ndimage calls: radius_px = 0 if |r/scale|<1 else ceil|r/scale| and is invariant under (r,scale)->(lr,ls); dilation/closing dispatch on the sign and use the closed ball of that radius; gaussian_filter/shift/gaussian_smooth/from_array receive sigma/scale, shift/scale, orig/scale; "
                "from_gaussian's exponent is -1/2 sum((x-c)/sigma)^2 with c=(n-1)/2+shift/scale for every voxel; LoaderBase.normalize_template/mask/input pass the loader's scale; converters leave their input array unmodified and the difference of two gaussian_smooth converters on one mask is the voxel-wise difference of the two Gaussians.",
        "note": "Trusted: z3 (nlsat for the rational unit identities), symx, recorded (not evaluated) scipy.ndimage calls, exp/ceil as uninterpreted/ToInt terms. Bounds: 1x1x2 images for operators, |r/scale| <= 3 for morphology structures, from_gaussian boxes up to 3 voxels per axis. Not covered: from_file/from_files/from_atoms/from_pdb (I/O), lowpass/highpass (C16), threshold_otsu/soft_otsu histograms, resize/zoom interpolation values.",
        "ref": "DESIGN.md §4 C19",
    },
    "C20": {
        "text": "pick_molecules / _pick_in_chunk_wrapped / get_params_and_depth / MoleculesBox / Molecules.concat executed on the REAL dask (synchronous scheduler) over an image of position codes cut into concrete chunks (1-6 per axis, incl. chunks thinner than the "
                "overlap depth and axes shorter than it), so each block tells which global voxels it holds; particle coordinates, the scale and the detector's behaviour near block borders are symbolic. Per path z3 decides: exactly one molecule per planted "
                "particle, at coordinate*scale (1 particle anywhere, 2 well separated). Template matcher: one rotated template per searched rotation, rotated about the box centre by the inverse rotation (exact rational quaternions); overlap depth covers every "
                "owned centre given the landscape geometry of C04; centre = landscape position + (s+1)/2; returned quaternion = searched rotation of the arg-max template; chunked picking with the matcher's per-axis depth. LoG/DoG: sigma_px = sigma/scale, depth - 1/2 >= exclusion radius. Boundary modes of map_overlap: default 'nearest', constant 0, 'reflect', per-axis dict/tuple. The exclusion footprint of find_maxima is the closed ball of a symbolic radius in [0, 3] (identity below one voxel).",
        "note": "Trusted: real dask.array (map_overlap, from_array), real polars, z3, symx. The scipy part of pick_in_chunk is replaced by an idealised detector (stated in the evidence): must report a particle whose r-neighbourhood lies in the block, may report nearer ones, "
                "may report one spurious border maximum. Bounds: images <= 16 voxels per axis, scale in [0.6, 1.5], sigma 1 nm, templates up to (4,2,6)/(3,5,3), K <= 5. Not covered: whether LoG/DoG/ZNCC maxima coincide with particle centres on real content, "
                "min-distance suppression, dtype handling, exact ties (a blob centred exactly between two voxels).",
        "ref": "DESIGN.md §4 C20",
    },
}

NOT_APPLICABLE = {
}

PENDING = {
    # properties whose harness is not built yet in this round (moved to CLAIMED as they land)
}
