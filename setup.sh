#!/bin/sh
# Build the overlay venv used by every check: /venv's packages (numpy, scipy, dask, polars, acryo deps)
# plus z3-solver / cvc5 / crosshair-tool from the offline wheelhouse. Idempotent; offline.
set -e
HERE="$(cd "$(dirname "$0")" && pwd)"
V="$HERE/.venv"
if [ -x "$V/bin/python" ] && "$V/bin/python" -c "import z3, numpy, scipy" >/dev/null 2>&1; then
    exit 0
fi
LOCK="$HERE/.venv.lock"
exec 9>"$LOCK"
flock 9
if [ -x "$V/bin/python" ] && "$V/bin/python" -c "import z3, numpy, scipy" >/dev/null 2>&1; then
    exit 0
fi
rm -rf "$V"
/venv/bin/python -m venv "$V"
SP="$("$V/bin/python" -c 'import sysconfig; print(sysconfig.get_paths()["purelib"])')"
echo "import site; site.addsitedir('/venv/lib/python3.12/site-packages')" > "$SP/_venv_overlay.pth"
PIP_NO_INDEX=1 "$V/bin/python" -m pip install -q --no-index --find-links /opt/veriftools/wheels z3-solver cvc5 crosshair-tool >/dev/null 2>&1 || \
PIP_NO_INDEX=1 "$V/bin/python" -m pip install -q --no-index --find-links /opt/veriftools/wheels z3-solver
"$V/bin/python" -c "import z3, numpy, scipy; print('overlay venv ready: z3', z3.get_version_string())"
