"""C10 (v) -- delayed tasks that share a stateful object (a random generator).

The real source of acryo/loader/_mock.py is executed with dask replaced by a recording shim: `delayed`
functions become graph nodes, `da.from_delayed / da.stack / +=, [..], .T` build lazy array nodes, and arrays are
opaque terms of an uninterpreted sort (every array operation is an uninterpreted function of its operands).  A random
generator is a counter machine: the k-th draw of generator g is the term draw(g, k).  The graph is then computed
under every evaluation order of sibling tasks (each task once, as dask does); the bodies of the delayed functions
are the real ones.  z3 decides, over all interpretations of the uninterpreted functions, whether every order
yields the same result as the reference order; a counterexample names two draws that swap, and is replayed on the
installed library (fresh graphs, synchronous and threaded schedulers).
"""
from __future__ import annotations

import itertools

import numpy as np
import z3

from symx import load, smt

Val = z3.DeclareSort("TaskVal")
_FUN = {}


def app(name, *args):
    key = (name, len(args))
    if key not in _FUN:
        _FUN[key] = z3.Function(f"{name}/{len(args)}", *([Val] * len(args)), Val)
    return _FUN[key](*args)


_CONSTS = {}


def const(label):
    if label not in _CONSTS:
        _CONSTS[label] = z3.Const(f"k<{label}>", Val)
    return _CONSTS[label]


def term_of(x):
    if isinstance(x, OA):
        return x.t
    if isinstance(x, np.ndarray):
        return const("array:" + repr(np.round(x, 6).tolist())[:200])
    return const(repr(x)[:200])


class Unsupported(Exception):
    pass


class OA:
    """opaque array: a term of sort TaskVal and a concrete shape"""

    __array_priority__ = 1000

    def __init__(self, t, shape, dtype=np.float32):
        self.t, self.shape, self.dtype = t, tuple(int(s) for s in shape), np.dtype(dtype)

    ndim = property(lambda self: len(self.shape))

    def _bin(self, name, o, flip=False):
        shp = np.broadcast_shapes(self.shape, getattr(o, "shape", ()))
        a, b = (term_of(o), self.t) if flip else (self.t, term_of(o))
        return OA(app(name, a, b), shp)

    def __add__(self, o):
        return self._bin("add", o)

    def __radd__(self, o):
        return self._bin("add", o, True)

    __iadd__ = __add__

    def __mul__(self, o):
        return self._bin("mul", o)

    def __rmul__(self, o):
        return self._bin("mul", o, True)

    def __sub__(self, o):
        return self._bin("sub", o)

    def __truediv__(self, o):
        return self._bin("div", o)

    def astype(self, dt, **k):
        return self

    @property
    def T(self):
        return OA(app("T", self.t), self.shape[::-1])

    def __getitem__(self, key):
        shp = np.empty(self.shape, dtype=bool)[key].shape
        return OA(app("idx", self.t, const("key:" + repr(key))), shp)

    def compute(self, **k):
        return self

    def __array__(self, *a, **k):
        raise Unsupported("opaque array used as a concrete array")

    def __len__(self):
        return self.shape[0]


class Rng:
    """counter machine: the k-th draw of this generator is draw(g, k)"""

    N = 0

    def __init__(self, seed=None):
        Rng.N += 1
        self.g = const(f"generator#{Rng.N}(seed={seed!r})")
        self.k = 0
        self.draws_in_task = 0

    def _draw(self, kind, size):
        t = app("draw", self.g, const(f"{kind}:{self.k}"))
        self.k += 1
        if _IN_TASK[0]:
            self.draws_in_task += 1
        size = () if size is None else (size if isinstance(size, tuple) else (size,))
        return OA(t, size, np.float64)

    def normal(self, loc=0.0, scale=1.0, size=None):
        d = self._draw("normal", size)
        return OA(app("affine1", d.t, term_of(loc), term_of(scale)), d.shape, np.float64)

    def random(self, size=None):
        return self._draw("random", size)

    def uniform(self, low=0.0, high=1.0, size=None):
        return self._draw("uniform", size)

    def standard_normal(self, size=None):
        return self._draw("standard_normal", size)

    def poisson(self, lam=1.0, size=None):
        return self._draw("poisson", size)

    def integers(self, *a, size=None, **k):
        return self._draw("integers", size)


_IN_TASK = [False]


class Lazy:
    """one delayed task: executed once (memoised) when the graph is computed"""

    def __init__(self, fn, args, kw):
        self.fn, self.args, self.kw = fn, args, kw
        self.done = False
        self.value = None

    def run(self, order):
        if self.done:
            return self.value
        args = [force(a, order) for a in self.args]
        kw = {k: force(v, order) for k, v in self.kw.items()}
        stateful = [a for a in list(args) + list(kw.values()) if isinstance(a, Rng)]
        _IN_TASK[0] = True
        try:
            try:
                out = self.fn(*args, **kw)
            except (Unsupported, TypeError, AttributeError, ValueError, IndexError) as e:
                if stateful:
                    raise Unsupported(f"body of task {self.fn.__name__} takes a generator and could not be executed on opaque arrays: {e!r}")
                # pure task whose body needs concrete data: an uninterpreted function of its arguments
                out = OA(app("task:" + self.fn.__name__, *[term_of(a) for a in args], *[term_of(v) for v in kw.values()]), self._shape_hint or ())
        finally:
            _IN_TASK[0] = False
        self.done, self.value = True, out
        return out

    _shape_hint = None


class LazyFn:
    def __init__(self, fn):
        self.fn = fn
        self.__name__ = getattr(fn, "__name__", "task")

    def __call__(self, *a, **k):
        return Lazy(self.fn, a, k)


def delayed_shim(fn=None, **kw):
    if fn is None:
        return lambda f: LazyFn(f)
    if callable(fn):
        return LazyFn(fn)
    return fn


class LazyArr:
    """dask array node"""

    def __init__(self, kind, parts, shape, extra=None):
        self.kind, self.parts, self.shape, self.extra = kind, parts, tuple(int(s) for s in shape), extra
        self.dtype = np.dtype(np.float32)

    ndim = property(lambda self: len(self.shape))

    def __add__(self, o):
        return LazyArr("add", [self, o], np.broadcast_shapes(self.shape, getattr(o, "shape", ())))

    __iadd__ = __add__
    __radd__ = __add__

    def __mul__(self, o):
        return LazyArr("mul", [self, o], np.broadcast_shapes(self.shape, getattr(o, "shape", ())))

    def __getitem__(self, key):
        return LazyArr("idx", [self], np.empty(self.shape, dtype=bool)[key].shape, key)

    @property
    def T(self):
        return LazyArr("T", [self], self.shape[::-1])

    def astype(self, *a, **k):
        return self

    def rechunk(self, *a, **k):
        return self

    def compute(self, order=None, **k):
        return force(self, order or (lambda n, xs: list(range(n))))

    def __len__(self):
        return self.shape[0]


def force(x, order):
    if isinstance(x, Lazy):
        return x.run(order)
    if isinstance(x, LazyArr):
        if getattr(x, "_val", None) is not None:
            return x._val
        if x.kind == "from_delayed":
            x.parts[0]._shape_hint = x.shape
            v = force(x.parts[0], order)
            v = v if isinstance(v, OA) else OA(term_of(v), x.shape)
        elif x.kind == "stack":
            idx = order(len(x.parts), x.parts)
            vals = [None] * len(x.parts)
            for i in idx:  # evaluation order of the sibling tasks
                vals[i] = force(x.parts[i], order)
            v = OA(app(f"stack{x.extra}", *[term_of(u) for u in vals]), x.shape)
        elif x.kind in ("add", "mul"):
            a, b = force(x.parts[0], order), force(x.parts[1], order)
            v = OA(app(x.kind, term_of(a), term_of(b)), x.shape)
        elif x.kind == "idx":
            v = force(x.parts[0], order)[x.extra]
        elif x.kind == "T":
            v = force(x.parts[0], order).T
        else:
            raise Unsupported(x.kind)
        x._val = v
        return v
    return x


class DaShim:
    Array = LazyArr

    @staticmethod
    def from_delayed(value, shape, dtype=None, **k):
        return LazyArr("from_delayed", [value], shape)

    @staticmethod
    def stack(seq, axis=0, **k):
        seq = list(seq)
        shp = list(seq[0].shape)
        shp.insert(axis, len(seq))
        return LazyArr("stack", seq, shp, axis)

    @staticmethod
    def from_array(x, *a, **k):
        return x


class NdiShim:
    @staticmethod
    def affine_transform(img, mtx, order=3, output_shape=None, **k):
        if not isinstance(img, OA):
            raise Unsupported("affine_transform of a concrete array")
        return OA(app("affine_transform", img.t, term_of(np.asarray(mtx))), output_shape if output_shape is not None else img.shape)


class _RandomShim:
    default_rng = staticmethod(lambda seed=None: Rng(seed))
    Generator = Rng


class NpShim:
    """numpy, except for opaque arrays and random generators"""

    random = _RandomShim()

    def __getattr__(self, name):
        return getattr(np, name)

    @staticmethod
    def sum(a, axis=None, **k):
        if isinstance(a, OA):
            shp = np.empty(a.shape, dtype=bool).sum(axis=axis).shape if a.shape else ()
            return OA(app("sum", a.t, const(f"axis:{axis}")), shp)
        return np.sum(a, axis=axis, **k)

    @staticmethod
    def asarray(a, *ar, **k):
        return a if isinstance(a, OA) else np.asarray(a, *ar, **k)

    @staticmethod
    def real(a):
        return a if isinstance(a, OA) else np.real(a)


def _load(patches=None):
    Rng.N = 0
    L = load.load(["acryo.loader._mock"], overrides={"np": NpShim(), "da": DaShim, "ndi": NdiShim, "delayed": delayed_shim}, patches=patches)
    M = L["acryo.loader._mock"]
    import importlib

    dd = importlib.import_module("dask.delayed")

    for k, v in list(vars(M).items()):
        if isinstance(v, dd.Delayed) and callable(getattr(v, "_obj", None)):
            setattr(M, k, LazyFn(v._obj))
    return L, M


def replay_mock_noise(cex):
    """installed library: a MockLoader with noise, computed from fresh graphs with the synchronous and the threaded scheduler, gives identical sub-tomograms"""
    import dask
    from acryo import Molecules
    from acryo.loader import MockLoader

    rng = np.random.default_rng(0)
    tmpl = rng.normal(size=(6, 6, 6)).astype(np.float32)
    mole = Molecules(np.zeros((2, 3)))
    outs = []
    for rep in range(4):
        for sched, kw in (("synchronous", {}), ("threads", {"num_workers": 4})):
            ld = MockLoader(tmpl, mole, noise=0.5, degrees=[-40.0, -10.0, 20.0, 50.0])
            with dask.config.set(scheduler=sched, **kw):
                outs.append((f"{sched}#{rep}", np.asarray(ld.asnumpy())))
    ref = outs[0][1]
    bad = {name: float(np.abs(a - ref).max()) for name, a in outs[1:] if a.shape != ref.shape or not np.allclose(a, ref, atol=1e-6)}
    return len(bad) > 0, {"max_abs_difference_to_first_run": bad}


def run_section(rec, n_deg=3, patches=None):
    L, M = _load(patches)
    rec.encodes("acryo/loader/_mock.py:simulate_noise", "acryo/loader/_mock.py:radon_single", "acryo/loader/_mock.py:normalize_radon_input",
                "acryo/loader/_mock.py:_get_rotation_matrices_for_radon_3d", "acryo/loader/_mock.py:(every other @delayed function reached from simulate_noise)")
    rec.assume("arrays are opaque terms: every array operation is an uninterpreted function of its operands; a random generator is a counter machine whose k-th draw is draw(g, k); "
               "dask executes every task once, sibling tasks in any order; a delayed function whose body needs concrete data and takes no generator is an uninterpreted function of its arguments")
    degrees = np.linspace(-40, 40, n_deg).astype(np.float32)
    shape = (3, 3, 2)

    def build():
        for c in list(_CONSTS):
            pass
        Rng.N = 0
        img = OA(const("img"), shape)
        return M.simulate_noise(img, np.array([0.0, 1.0, 0.0], dtype=np.float32), degrees, 0.5, seed=0)

    perms = list(itertools.permutations(range(n_deg)))
    results = []
    tag = f"task-purity[simulate_noise,{n_deg} tilt angles]"
    for pm in perms:
        def order(n, parts, pm=pm):
            return list(pm) if n == len(pm) else list(range(n))

        try:
            out = build().compute(order=order)
        except Unsupported as e:
            rec.inconclusive(f"{tag}/order{pm}", f"not encodable: {e}")
            return
        except Exception as e:  # the code under test raised
            ok, det = replay_mock_noise({})
            rec.fact(f"{tag}/order{pm}/runs", False, key="C10/task-purity/raises", detail={"exc": repr(e)[:300], **det}, reproduced=ok)
            return
        results.append((pm, out))
    ref = results[0][1]
    for pm, out in results[1:]:
        same_shape = tuple(out.shape) == tuple(ref.shape)
        rec.fact(f"{tag}/order{pm}/same-shape", same_shape, key="C10/task-purity/shape", detail={"shape": list(out.shape), "reference": list(ref.shape)})
        rec.query(f"{tag}/order{pm}/same-result-as-tilt-order", [], out.t == ref.t, key="C10/task-purity/result-depends-on-task-order", replay=replay_mock_noise, twin=False)
    # reachability: the encoding distinguishes draws (two different draws of one generator are not forced equal)
    g = Rng(0)
    a, b = g.normal(0, 1, (2,)), g.normal(0, 1, (2,))
    r = smt.prove([], a.t == b.t)
    rec.fact(f"{tag}/witness: two draws of one generator may differ", r.status != "holds", key="C10/task-purity/witness", detail={"status": r.status}, reproduced=None)
    rec.extra[tag] = {"orders": len(perms), "result_shape": list(ref.shape)}
